#!/venv/bin/python
"""mkmutant.py <name> <relative file> <<< JSON [[old,new],...]
Writes selftest/mutants/<name>.patch (unified diff against /repo HEAD)."""
import difflib, json, os, sys
name, rel = sys.argv[1], sys.argv[2]
pairs = json.load(sys.stdin)
src = open(os.path.join('/repo', rel)).read()
new = src
for old, rep in pairs:
    if new.count(old) != 1:
        sys.exit('pattern occurs %d times: %r' % (new.count(old), old))
    new = new.replace(old, rep)
diff = ''.join(difflib.unified_diff(src.splitlines(True), new.splitlines(True), 'a/' + rel, 'b/' + rel))
out = os.path.join('/verif/selftest/mutants', name + '.patch')
open(out, 'w').write(diff)
print(out, len(diff.splitlines()), 'lines')
