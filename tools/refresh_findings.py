#!/venv/bin/python
"""Re-execute the committed finding examples against the current tree and
refresh their recorded digest / observed violation (run after a fix: commit)."""
import glob, json, os, sys
HERE = os.path.dirname(os.path.dirname(os.path.abspath(__file__)))
sys.path.insert(0, HERE)
from sim import core, runner
core.import_sut()
for f in sorted(glob.glob(os.path.join(HERE, 'findings', '*.json'))):
    d = json.load(open(f))
    chk = runner.load_check(d['property'])
    chk.setup()
    res = chk.execute(d['case'])
    want = d['violation']['cls']
    hit = [v for v in res['violations'] if v['cls'] == want]
    if not hit:
        print(f, 'NO LONGER REPRODUCES', [v['cls'] for v in res['violations']])
        continue
    d['violation'] = hit[0]
    d['digest'] = res['digest']
    d['finding'] = chk.finding(d['case'], hit[0])
    json.dump(d, open(f, 'w'), indent=1, sort_keys=True, default=core._default)
    print(f, 'ok finding=%s' % d['finding'])
