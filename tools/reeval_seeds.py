#!/venv/bin/python
"""reeval_seeds.py [name-prefix ...]: re-run the quick tier of each seeded
change's own check against a scratch copy of /repo with the patch applied and
record the outcome in seeded/<name>/meta.json (confirmation.check_results;
the first recorded result is kept as confirmation.first_check_results)."""
import json
import os
import shutil
import subprocess
import sys
import tempfile
import time

VERIF = os.path.dirname(os.path.dirname(os.path.abspath(__file__)))


def main():
    pref = sys.argv[1:]
    names = sorted(os.listdir(os.path.join(VERIF, 'seeded')))
    out = []
    for name in names:
        if pref and not any(name.startswith(p) for p in pref):
            continue
        d = os.path.join(VERIF, 'seeded', name)
        mp = os.path.join(d, 'meta.json')
        meta = json.load(open(mp))
        if meta.get('obsolete_since'):
            print(name, 'NOT-COUNTED', meta['obsolete_since'].get(
                'repo_commit'))
            continue
        pid = meta.get('breaks_property') or meta.get('property')
        tmp = tempfile.mkdtemp(prefix='verif-reeval-')
        try:
            dst = os.path.join(tmp, 'repo')
            shutil.copytree('/repo', dst, ignore=shutil.ignore_patterns(
                '.git', '__pycache__', '*.pyc', 'doc', 'releasenotes'))
            # patch.head.diff: the same change ported by hand to the current
            # HEAD of /repo, when a later fix: commit touched the same lines
            pf = os.path.join(d, 'patch.head.diff')
            if not os.path.exists(pf):
                pf = os.path.join(d, 'patch.diff')
            p = subprocess.run(['patch', '-p1', '-s', '-i', pf], cwd=dst,
                               capture_output=True, text=True)
            if p.returncode != 0:
                print(name, 'PATCH DOES NOT APPLY')
                continue
            t0 = time.time()
            c = subprocess.run([os.path.join(VERIF, 'check'), pid, '--tier',
                                'quick', '--no-evidence'],
                               env=dict(os.environ, VERIF_REPO=dst),
                               capture_output=True, text=True)
            classes = sorted(set(
                l.split()[1].split('=', 1)[1] for l in c.stdout.splitlines()
                if l.startswith('violation class=')))
            res = {'tier': 'quick', 'rc': c.returncode,
                   'result': {0: 'MISSED', 1: 'CAUGHT'}.get(c.returncode,
                                                             'ERROR'),
                   'classes': classes, 'wall_s': round(time.time() - t0, 1)}
            if c.returncode not in (0, 1):
                res['out'] = (c.stdout + c.stderr)[-1500:]
            conf = meta.setdefault('confirmation', {})
            old = conf.get('check_results') or {}
            if 'first_check_results' not in conf and old:
                conf['first_check_results'] = old
            cr = dict(old)
            cr[pid] = res
            conf['check_results'] = cr
            json.dump(meta, open(mp, 'w'), indent=1)
            print(name, pid, res['result'], ','.join(classes), res['wall_s'])
            sys.stdout.flush()
            out.append((name, res['result']))
        finally:
            shutil.rmtree(tmp, ignore_errors=True)
    bad = [n for n, r in out if r != 'CAUGHT']
    print('seeds=%d caught=%d not-caught=%s' % (len(out), len(out) - len(bad),
                                                bad))
    return 1 if bad else 0


if __name__ == '__main__':
    sys.exit(main())
