#!/venv/bin/python
"""Regenerate MANIFEST.json from the table below (single source of truth)."""
import json
import os
import subprocess

HERE = os.path.dirname(os.path.dirname(os.path.abspath(__file__)))

TECH = 'deterministic simulation with fault injection: seeded search over '

STRICT = (' After the main batch a further eighth of the run indexes is '
          'executed by the same code in a second interpreter started with '
          'python -O and with warnings raised as errors (DESIGN.md 3.8a); a '
          'replay file written there re-executes itself under that '
          'configuration.')

# what the third session added to each workload (DESIGN.md section 4, "As
# built (third session)", and the fault catalogue in 3.4)
EXTRA = {
    'C01': 'Also: sessions that state an expected_format, long streams '
    'around the size constants of the module under test, stalled sources '
    '(thousands of empty chunks in a row), producers that reuse and scrub '
    'one buffer (memoryview / bytearray chunks), inspectors built with '
    'tracing=True.',
    'C02': 'Also: generated extent path names, reused producer buffers, '
    'tracing=True inspectors, a CLI whose stdout reader has gone (EPIPE); '
    'path-taking routes are handed a real file, the open() seam adds short '
    'reads and EIO where the tree opens files through it.',
    'C03': 'Also: format names as str subclasses / enum members, other '
    'collection types, a caller that edits the list formats returned, '
    'reused producer buffers.',
    'C05': 'Also: tracing=True inspectors and reused producer buffers.',
    'C06': 'Also: the recorded history is keyed by source chunk (a wrapper '
    'may feed inspectors in pieces or skip empty chunks), long streams '
    'around the module\'s size constants, argument shapes, reused producer '
    'buffers.',
    'C07': 'Also: queries in mid-stream, reused producer buffers, '
    'tracing=True (half of them with DEBUG logging switched on and every '
    'record rendered), descriptors with CRLF / odd extent lines.',
    'C09': 'Also: symlink / dangling-link / loop paths, a falsy logger, one '
    'context object serving two handlers, a filter host that is a copy of '
    'a prototype, hosts that compare and hash equal although their '
    'predicates differ.',
    'C12': 'Also: overrides in named zones (advances only where wall-clock '
    'and exact arithmetic agree), utcnow(with_timezone=True), margins '
    'beyond the representable range, an override that shows one wall-clock '
    'reading with fold 0 and then fold 1 (equal, same hash, an hour apart).',
    'C13': 'Also: watches that travel (copy / deepcopy / pickle replacing '
    'the original), two watches at once, a clock read that raises (counted, '
    'not judged), '
    'integer (2^60) and Fraction clocks, deadlines beyond 2^53.',
    'C20': 'Also: failures that are not OSErrors, every algorithm in '
    'hashlib.algorithms_available.',
}

CLAIMED = {
    'C01': dict(
        level='exploration', ref='DESIGN.md section 4 C01',
        technique=TECH + 'chunk schedules x contents of a simulated byte '
        'stream; cross-schedule agreement oracle, per-chunk region-bytes '
        'invariant, engine sweep as smoke layer',
        text='Seeded search (one integer decides content, schedules, inspector '
        'order and query placement of a run): the real inspectors and '
        'InspectWrapper are fed the same bytes under 6 (quick) / 12 '
        '(thorough) chunk schedules biased to structure boundaries; final '
        'verdicts must agree, intermediate queries must have no effect and '
        'after every chunk each retained region must equal the stream bytes '
        'at its offsets (query plans up to every query after every chunk; '
        'wrapper read() sessions with short reads); in a fifth of the runs '
        'a second stream is inspected at the same time, interleaved by the '
        'seeded scheduler, and neither verdict may depend on the other. '
        'Evidence, not proof: '
        'schedules x contents are sampled; only the tiny engine sweep is '
        'complete.',
        note='Trusted: CPython, struct, the layout models in '
        'models/formats.py. Known findings F1 (VMDK text-descriptor mode) and '
        'F3 (VMDK footer on streams < 1600 bytes) are reported as '
        'KNOWN-FINDING, see known_findings.json.'),
}

CLAIMED.update({
    'C02': dict(
        level='exploration', ref='DESIGN.md section 4 C02',
        technique=TECH + 'trait-labelled images x chunk schedules x '
        'truncation points x faults injected into safety-check bodies and '
        'into the file behind the CLI; trait-based reference verdict and '
        'structural fail-closed invariant',
        text='Seeded search: images generated from layout models with '
        'safe/unsafe trait values carry a reference label taken from the '
        'property statement (must-reject / must-accept / none); they are '
        'streamed through the real inspectors, InspectWrapper, '
        'detect_file_format (open() seam: short reads, EIO) and cli.main '
        '(in-process; a sample as real subprocess) under seeded schedules '
        'with truncation at structure boundaries; every registered check '
        'body is replaced by raising callables. Asserted: nothing labelled '
        'must-reject or incomplete is accepted, clean images are accepted, a '
        'check error is a failure of that check, exit 0 only on success.',
        note='Trusted: the trait labels in models/traits.py (qcow2 '
        'incompatible bits >= 4 unknown, bit 2 data file). Only the '
        'directions the statement gives are asserted; a rejected unlabelled '
        'image is never an alarm.'),
    'C05': dict(
        level='exploration', ref='DESIGN.md section 4 C05',
        technique=TECH + 'hostile multi-MiB streams x chunk schedules; '
        'invariant on retained bytes after every simulated chunk',
        text='Seeded search over multi-MiB streams whose length/count/offset '
        'fields are driven to boundary and maximal values, delivered under '
        'seeded schedules including one giant chunk; after every chunk and '
        'after finish() the bytes reported by context_info must stay under '
        '1.5 MiB (vmdk) / 512 KiB (others). Streams are longer than the '
        'bound past the structure concerned so an unbounded capture shows. '
        'Hostile content also includes one structural unit of a format '
        '(volume descriptors, table headers, sparse headers, magic strings) '
        'repeated to the end of the stream and read in chunks no larger '
        'than the unit, and every length/count/offset field of the '
        'fixed-header formats over boundary and mid-range values; in 30 % '
        'of the runs the caller keeps feeding after an error.',
        note='Trusted: context_info reports what is retained (the property '
        'is stated in terms of it).'),
    'C07': dict(
        level='exploration', ref='DESIGN.md section 4 C07',
        technique=TECH + 'layouts x declared sizes x chunk schedules with '
        'the size sampled after every chunk (every EOF point) against the '
        'size the layout model declares',
        text='Seeded search: well-formed images of every format with declared '
        'sizes over the field range and all admissible layouts are streamed '
        'under seeded schedules; virtual_size is sampled after every chunk '
        '(each presented prefix) and after finish(), and for boundary '
        'prefixes with finish(): it must equal the declared size at the end, '
        'be 0 before the last byte of the size field has arrived and never '
        'be anything but 0 or the declared size in between.',
        note='Trusted: the layout models put the size where the format '
        'specifications put it.'),
})
CLAIMED.update({
    'C03': dict(
        level='exploration', ref='DESIGN.md section 4 C03',
        technique=TECH + 'contents x allowed_formats x read-size sequences x '
        'inspector order with the decision sampled after every simulated '
        'read; three-valued signature model, no-revision and totality '
        'invariants over the recorded history',
        text='Seeded search: signature overlays, valid / mutated / truncated '
        'images and text/binary files with lengths on both sides of every '
        'decision point are read through InspectWrapper (read() and '
        'iteration, seeded read sizes, permuted inspector order, '
        'allowed_formats subsets) and through detect_file_format (open() '
        'seam, short reads); wrapper.format is sampled after every read. '
        'Final results are compared with a yes/no/maybe signature model '
        '(exclusivity, raw only when nothing matches, multiple => '
        'ImageFormatError, allowed set honoured), every sample must be total '
        '(nothing but ImageFormatError) and a decision once reported must '
        'never change. Further dimensions: expected_format inside / outside '
        'allowed_formats, short reads, signatures planted near the end of '
        'the stream; and a model-free metamorphic rule: signatures that are '
        'each detected when planted alone must be refused when planted '
        'together.',
        note='Trusted: models/sigmodel.py. "maybe" (signature present but '
        'stream shorter than the decision point; VMDK text territory) '
        'asserts nothing.'),
    'C06': dict(
        level='fault_enumeration', ref='DESIGN.md section 4 C06',
        technique=TECH + 'injected inspector/source faults: per workload a '
        'sweep of every single-fault placement (inspector x chunk x phase), '
        'sampled multi-fault sequences; recorded history judged against a '
        'pass-through pipe reference model',
        text='Per workload (content, read plan, file or iterator source, '
        'expected_format, allowed_formats, inspector order) every placement '
        'of one injected exception - each inspector x every chunk index x '
        'phase (before eating, after capture, inside post_process) - is '
        'executed as its own simulated session; further runs sample up to '
        'three faults (also inside region_complete), twelve exception '
        'classes (empty message, unrenderable), source faults, short reads, '
        'read(0), readinto() sources, debug logging that really renders, a '
        'reader that goes on after the abort, and an earlier stream in the '
        'same process built from the same allowed_formats list. Each '
        'session records what the '
        'source produced, every eat_chunk call and outcome, what the reader '
        'received and what surfaced, and is judged against the reference '
        'pipe: bytes unchanged and in order, non-expected failures never '
        'surface, a failed inspector is never fed again, healthy inspectors '
        'see exactly the stream, the expected inspector failing or '
        'mismatching cuts the stream at that chunk with the right exception '
        'and no further source read, the stream is never ended early and the '
        'wrapper never feeds an inspector it has already finished.',
        note='Enumeration is complete only per workload (sweep workloads have '
        '<= 14 chunks) over all chunk indices and three phases; workloads, '
        'multi-fault sequences and exception classes are sampled. '
        'BaseException is not injected.'),
})
CLAIMED.update({
    'C12': dict(
        level='exploration', ref='DESIGN.md section 4 C12',
        technique=TECH + 'operation histories on a simulated wall clock '
        '(override / advance / clear / fixture, clock steps, jumps and '
        'backward steps on the un-overridden path) against an '
        'integer-microsecond reference clock',
        text='Seeded search over histories of set_time_override, TimeFixture '
        'setUp/cleanUp, advance_time_delta/seconds, clear_time_override and '
        'queries (utcnow, utcnow_ts, is_older_than, is_newer_than, is_soon '
        'with naive / fixed-offset / named-zone / ISO-string arguments and '
        'margins placed exactly on and one microsecond around the '
        'comparison boundary) with the wall clock behind shims; every answer '
        'is compared with an integer-microsecond reference clock; the pure '
        'clauses (normalize_time, parse_isotime o isoformat, unmarshall o '
        'marshall, leap second) ride along as operations.',
        note='Trusted: datetime/zoneinfo arithmetic, timedelta rounding. '
        'Apart from the clock this is input generation; it is claimed '
        'because every comparison clause is a function of the simulated '
        'clock and of the history of operations on it.'),
    'C13': dict(
        level='exploration', ref='DESIGN.md section 4 C13',
        technique=TECH + 'call histories x simulated monotonic clock step '
        'patterns (stall, jump, backward step) against a reference state '
        'machine fed the same clock readings',
        text='Seeded search over call histories (<= 40 calls over the whole '
        'method alphabet incl. the context-manager protocol) x durations x '
        'clock patterns with the documented clock seam timeutils.now '
        'replaced by a simulated clock that moves on every read and between '
        'calls; every return value / RuntimeError is compared with a '
        'reference machine that receives the readings handed out during the '
        'call. Exact equality while the clock is monotonic; clamps, '
        'legality and flags only after a backward step. All 3 x 13 '
        '(state, op) transitions are reached in every batch (reported). The '
        'first runs of a batch are a declared sweep layer: every call '
        'sequence up to length 4 (quick) / 6 (thorough) over a 15-symbol '
        'alphabet, each under a seeded clock pattern.',
        note='The claim rests on the seeded search; the sweep of short '
        'sequences is a smoke layer (complete over sequences, sampled over '
        'clock patterns and, at the deepest length, durations).'),
})
CLAIMED.update({
    'C09': dict(
        level='exploration', ref='DESIGN.md section 4 C09',
        technique=TECH + 'handler programs x injected exceptions x task '
        'interleavings (seeded cooperative scheduler over greenlets and '
        'baton-passed real threads) x failing removers; per-task reference '
        'interpreter over symbolic exception labels',
        text='Seeded search: 1-3 tasks, each a generated handler program '
        'around save_and_reraise_exception (context manager, nested to '
        'depth 4, reraise toggled, inner exceptions raised and caught, new '
        'exceptions, direct force_reraise), manual capture/force_reraise, '
        'exception_filter (context manager, direct call, bound method, '
        'decorator) or remove_path_on_error (real and failing removers on a '
        'scratch directory; the remover itself may be switched out), with '
        'seven exception classes (incl. falsy instances) and new exceptions '
        'chained to the original; tasks are interleaved at every yield '
        'point by the seeded scheduler (greenlets, baton-passed threads, or '
        'threads additionally pre-empted at seeded line events inside '
        'excutils.py / fileutils.py); exception_filter objects may be '
        'shared between tasks. Outcome '
        'per task - which exception object leaves the construct (identity), '
        'that its traceback ends with the frames of the original raise, '
        'logger.error calls and their content, file-system effect - is '
        'compared with a reference interpreter and must not depend on the '
        'interleaving.',
        note='Known finding K9 (force_reraise called directly and swallowed '
        'in the body) is reported as KNOWN-FINDING. Only unambiguous API '
        'uses are generated.'),
    'C20': dict(
        level='fault_enumeration', ref='DESIGN.md section 4 C20',
        technique=TECH + 'simulated file objects (short reads, read/seek '
        'errors) and a fault-injecting os proxy over a scratch directory; '
        'complete errno sweep on makedirs/remove plus seeded cases against a '
        'whole-file reference',
        text='Every errno of errno.errorcode is injected into makedirs '
        '(ensure_tree with the path missing / a directory / a file) and '
        'into the remove function (delete_if_exists): exactly EEXIST-on-a-'
        'directory and ENOENT may be swallowed. Seeded cases: '
        'compute_file_checksum over content sizes around chunk-size '
        'multiples x chunk sizes x all guaranteed algorithms x short-read '
        'schedules x read errors (simulated and real files) against the '
        'one-shot digest and a read-count bound; last_bytes for n around the '
        'size with seek errors; write_to_tempfile with nested missing '
        'directories, prefix/suffix, pre-existing files, injected '
        'write/close/mkstemp/makedirs errors, the directory removed between '
        'two calls, descriptor accounting by fstat, and 2-3 checksum / '
        'last_bytes calls in flight at once with every simulated read a '
        'switch point.',
        note='A short os.write is not injected (outside the statement). '
        'delete_if_exists default remover (bound at import) is exercised '
        'with real files only.'),
})
CLAIMED = {k: v for k, v in CLAIMED.items()
           if os.path.exists(os.path.join(HERE, 'checks', k.lower() + '.py'))}

NOT_APPLICABLE = {
    'C04': 'mask_password is a pure function of one string (regex rewriting, '
           'read-only tables): no stream, clock, scheduler, I/O or shared '
           'state for a simulator to own; input generation is not this '
           'technique',
    'C08': 'mask_dict_password is a pure recursive transformation of one '
           'mapping; nothing to schedule or to fault',
    'C10': 'string_to_bytes / QemuImgInfo size parsing is arithmetic on one '
           'string; nothing to schedule or to fault',
    'C11': 'address validators are predicates on one string via netaddr; '
           'nothing to schedule or to fault',
    'C14': 'scalar parsers/validators are pure; the one random source '
           '(uuid4 in generate_uuid) behind a seam would be input generation '
           'under another name',
    'C15': 'EUI-64 / host:port / URL helpers are pure conversions',
    'C16': 'text coding helpers and to_slug are pure conversions of their '
           'arguments',
    'C17': 'version helpers are pure comparisons',
    'C18': 'the spec matcher is a pure evaluation; a grammar is built per '
           'call so no state is shared',
    'C19': 'split_path / split_by_commas are pure parsing',
}

PENDING = {k: 'not claimed yet: the simulated check for this property is '
              'under construction (DESIGN.md section 4); it is applicable '
              'to the technique' for k in
           ('C02', 'C03', 'C05', 'C06', 'C07', 'C09', 'C12', 'C13', 'C20')}
for _k in list(PENDING):
    if _k in CLAIMED:
        del PENDING[_k]


def main():
    checks = []
    for pid in sorted(CLAIMED):
        c = CLAIMED[pid]
        checks.append({
            'property_id': pid,
            'quick_cmd': './check %s --tier quick' % pid,
            'thorough_cmd': './check %s --tier thorough' % pid,
            'evidence_file': 'evidence/%s.json' % pid,
            'replay_cmd_template': './check %s --replay {path}' % pid,
            'engine': 'oslo-dst',
            'level_claimed': {'category': c['level'],
                              'text': c['text'] + ' ' + EXTRA.get(pid, '') +
                              STRICT,
                              'design_ref': c['ref']},
            'level_note': c['note'],
            'technique': c['technique'],
        })
    na = [{'property_id': k, 'reason': v}
          for k, v in sorted(NOT_APPLICABLE.items())]
    na += [{'property_id': k, 'reason': v} for k, v in sorted(PENDING.items())]
    try:
        commits = subprocess.run(
            ['git', '-C', '/repo', 'log', '--format=%h %s'],
            capture_output=True, text=True).stdout.splitlines()
    except Exception:
        commits = []
    fixes = [c for c in commits if c.split(' ', 1)[1].startswith('fix:')]
    doc = {
        'version': 1,
        'setup_cmd': './setup.sh',
        'hooks': {
            'guard': 'OSLO_UTILS_VERIF',
            'enable': 'no hook was needed: every seam the simulator takes '
                      'already exists (constructor arguments, module '
                      'globals, documented replaceable clock); the guard '
                      'name is reserved and unused. Checks import /repo\'s '
                      'working tree directly (VERIF_REPO overrides).',
            'baseline_off_cmd': 'cd /repo && /venv/bin/python -m pytest -ra -q'
                                ' -p no:cacheprovider --timeout=900 '
                                '--continue-on-collection-errors',
            'source_commits': [],
            'add_only': True,
        },
        'engines': [{
            'name': 'oslo-dst', 'path': 'sim/',
            'serves_properties': sorted(CLAIMED),
            'kind_free_text': 'in-process deterministic simulator written for '
            'this task: seeded per-component PRNG streams, simulated byte '
            'sources/files/clocks/schedulers behind the seams the code '
            'already has, fault catalogue, reference-model oracles, '
            'minimiser, JSON replay files, process-parallel batch runner, '
            'strict-interpreter pass (python -O, warnings as errors)',
        }],
        'checks': checks,
        'not_applicable': na,
        'notes': 'fix: commits in /repo (genuine defects found by the checks, '
                 'see known_findings.json): ' + '; '.join(fixes),
    }
    with open(os.path.join(HERE, 'MANIFEST.json'), 'w') as f:
        json.dump(doc, f, indent=1)
        f.write('\n')
    print('MANIFEST.json: %d checks, %d not_applicable' % (len(checks),
                                                           len(na)))


if __name__ == '__main__':
    main()
