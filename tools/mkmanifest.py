#!/venv/bin/python
"""Regenerate MANIFEST.json from the table below (single source of truth)."""
import json
import os
import subprocess

HERE = os.path.dirname(os.path.dirname(os.path.abspath(__file__)))

TECH = 'deterministic simulation with fault injection: seeded search over '

CLAIMED = {
    'C01': dict(
        level='exploration', ref='DESIGN.md section 4 C01',
        technique=TECH + 'chunk schedules x contents of a simulated byte '
        'stream; cross-schedule agreement oracle, per-chunk region-bytes '
        'invariant, engine sweep as smoke layer',
        text='Seeded search (one integer decides content, schedules, inspector '
        'order and query placement of a run): the real inspectors and '
        'InspectWrapper are fed the same bytes under 6 (quick) / 12 '
        '(thorough) chunk schedules biased to structure boundaries; final '
        'verdicts must agree, intermediate queries must have no effect and '
        'after every chunk each retained region must equal the stream bytes '
        'at its offsets. Evidence, not proof: schedules x contents are '
        'sampled; only the tiny engine sweep is complete.',
        note='Trusted: CPython, struct, the layout models in '
        'models/formats.py. Known findings F1 (VMDK text-descriptor mode) and '
        'F3 (VMDK footer on streams < 1600 bytes) are reported as '
        'KNOWN-FINDING, see known_findings.json.'),
}

NOT_APPLICABLE = {
    'C04': 'mask_password is a pure function of one string (regex rewriting, '
           'read-only tables): no stream, clock, scheduler, I/O or shared '
           'state for a simulator to own; input generation is not this '
           'technique',
    'C08': 'mask_dict_password is a pure recursive transformation of one '
           'mapping; nothing to schedule or to fault',
    'C10': 'string_to_bytes / QemuImgInfo size parsing is arithmetic on one '
           'string; nothing to schedule or to fault',
    'C11': 'address validators are predicates on one string via netaddr; '
           'nothing to schedule or to fault',
    'C14': 'scalar parsers/validators are pure; the one random source '
           '(uuid4 in generate_uuid) behind a seam would be input generation '
           'under another name',
    'C15': 'EUI-64 / host:port / URL helpers are pure conversions',
    'C16': 'text coding helpers and to_slug are pure conversions of their '
           'arguments',
    'C17': 'version helpers are pure comparisons',
    'C18': 'the spec matcher is a pure evaluation; a grammar is built per '
           'call so no state is shared',
    'C19': 'split_path / split_by_commas are pure parsing',
}

PENDING = {k: 'not claimed yet: the simulated check for this property is '
              'under construction (DESIGN.md section 4); it is applicable '
              'to the technique' for k in
           ('C02', 'C03', 'C05', 'C06', 'C07', 'C09', 'C12', 'C13', 'C20')}
for _k in list(PENDING):
    if _k in CLAIMED:
        del PENDING[_k]


def main():
    checks = []
    for pid in sorted(CLAIMED):
        c = CLAIMED[pid]
        checks.append({
            'property_id': pid,
            'quick_cmd': './check %s --tier quick' % pid,
            'thorough_cmd': './check %s --tier thorough' % pid,
            'evidence_file': 'evidence/%s.json' % pid,
            'replay_cmd_template': './check %s --replay {path}' % pid,
            'engine': 'oslo-dst',
            'level_claimed': {'category': c['level'], 'text': c['text'],
                              'design_ref': c['ref']},
            'level_note': c['note'],
            'technique': c['technique'],
        })
    na = [{'property_id': k, 'reason': v}
          for k, v in sorted(NOT_APPLICABLE.items())]
    na += [{'property_id': k, 'reason': v} for k, v in sorted(PENDING.items())]
    try:
        commits = subprocess.run(
            ['git', '-C', '/repo', 'log', '--format=%h %s'],
            capture_output=True, text=True).stdout.splitlines()
    except Exception:
        commits = []
    fixes = [c for c in commits if c.split(' ', 1)[1].startswith('fix:')]
    doc = {
        'version': 1,
        'setup_cmd': './setup.sh',
        'hooks': {
            'guard': 'OSLO_UTILS_VERIF',
            'enable': 'no hook was needed: every seam the simulator takes '
                      'already exists (constructor arguments, module '
                      'globals, documented replaceable clock); the guard '
                      'name is reserved and unused. Checks import /repo\'s '
                      'working tree directly (VERIF_REPO overrides).',
            'baseline_off_cmd': 'cd /repo && /venv/bin/python -m pytest -ra -q'
                                ' -p no:cacheprovider --timeout=900 '
                                '--continue-on-collection-errors',
            'source_commits': [],
            'add_only': True,
        },
        'engines': [{
            'name': 'oslo-dst', 'path': 'sim/',
            'serves_properties': sorted(CLAIMED),
            'kind_free_text': 'in-process deterministic simulator written for '
            'this task: seeded per-component PRNG streams, simulated byte '
            'sources/files/clocks/schedulers behind the seams the code '
            'already has, fault catalogue, reference-model oracles, '
            'minimiser, JSON replay files, process-parallel batch runner',
        }],
        'checks': checks,
        'not_applicable': na,
        'notes': 'fix: commits in /repo (genuine defects found by the checks, '
                 'see known_findings.json): ' + '; '.join(fixes),
    }
    with open(os.path.join(HERE, 'MANIFEST.json'), 'w') as f:
        json.dump(doc, f, indent=1)
        f.write('\n')
    print('MANIFEST.json: %d checks, %d not_applicable' % (len(checks),
                                                           len(na)))


if __name__ == '__main__':
    main()
