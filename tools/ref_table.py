#!/venv/bin/python
"""ref_table.py <fragment>: DESIGN.md table rows for refactors/<*fragment*>."""
import json
import os
import sys

HERE = os.path.dirname(os.path.dirname(os.path.abspath(__file__)))


def short(s, n):
    s = ' '.join(str(s or '').split()).replace('|', '/')
    return s if len(s) <= n else s[:n - 3].rstrip() + '...'


def main():
    frag = sys.argv[1]
    print('| refactoring | what it is | checks run on it |')
    print('|---|---|---|')
    for name in sorted(os.listdir(os.path.join(HERE, 'refactors'))):
        if frag not in name:
            continue
        m = json.load(open(os.path.join(HERE, 'refactors', name,
                                        'meta.json')))
        v = (m.get('verification') or {}).get('check_results') or {}
        res = ', '.join('%s %s' % (k, r['result'].lower())
                        for k, r in sorted(v.items())) or 'see reeval'
        print('| %s | %s | %s |' % (name, short(m.get('summary'), 240), res))


if __name__ == '__main__':
    main()
