#!/venv/bin/python
"""ingest_seed.py <dir with patch.diff demo.py meta.json> <name> [--tier quick]

Confirms a seeded change in a scratch copy of /repo (outside /repo and
/verif): the patch applies, the pinned suite still passes, the demo fails with
the patch and passes without; then runs the property's check against the
patched copy and stores everything as /verif/seeded/<name>/.
"""
import json
import os
import shutil
import subprocess
import sys
import tempfile
import time

VERIF = os.path.dirname(os.path.dirname(os.path.abspath(__file__)))


def sh(cmd, **kw):
    return subprocess.run(cmd, capture_output=True, text=True, **kw)


def main():
    src, name = sys.argv[1], sys.argv[2]
    tier = 'quick'
    extra_checks = []
    for a in sys.argv[3:]:
        if a.startswith('--tier='):
            tier = a.split('=')[1]
        if a.startswith('--also='):
            extra_checks = a.split('=')[1].split(',')
    meta = json.load(open(os.path.join(src, 'meta.json')))
    pid = meta.get('property') or name.split('-')[0]
    tmp = tempfile.mkdtemp(prefix='verif-seed-')
    res = {'name': name, 'property': pid}
    try:
        dst = os.path.join(tmp, 'repo')
        shutil.copytree('/repo', dst, ignore=shutil.ignore_patterns(
            '.git', '__pycache__', '*.pyc', 'doc', 'releasenotes'))
        p = sh(['patch', '-p1', '-s', '-i', os.path.join(src, 'patch.diff')],
               cwd=dst)
        res['applies'] = p.returncode == 0
        if p.returncode != 0:
            print(json.dumps(res), p.stdout, p.stderr)
            return 1
        q = sh([os.path.join(VERIF, 'tools', 'baseline.py'), dst])
        res['suite_ok'] = q.returncode == 0
        res['suite'] = q.stdout.strip().splitlines()[0] if q.stdout else ''
        # demos may locate the library relative to their own directory:
        # run them from <copy>/seedX/ in a patched and in a pristine copy
        pristine = os.path.join(tmp, 'pristine')
        shutil.copytree('/repo', pristine, ignore=shutil.ignore_patterns(
            '.git', '__pycache__', '*.pyc', 'doc', 'releasenotes'))
        for root in (dst, pristine):
            os.makedirs(os.path.join(root, 'seedX'))
            shutil.copy(os.path.join(src, 'demo.py'),
                        os.path.join(root, 'seedX', 'demo.py'))
        env = dict(os.environ, PYTHONPATH=dst, PYTHONDONTWRITEBYTECODE='1')
        d1 = sh(['/venv/bin/python', os.path.join(dst, 'seedX', 'demo.py')],
                env=env, cwd=dst, timeout=900)
        env0 = dict(os.environ, PYTHONPATH=pristine,
                    PYTHONDONTWRITEBYTECODE='1')
        d0 = sh(['/venv/bin/python',
                 os.path.join(pristine, 'seedX', 'demo.py')], env=env0,
                cwd=pristine, timeout=900)
        shutil.rmtree(os.path.join(dst, 'seedX'))
        res['demo_with_patch'] = d1.returncode
        res['demo_without_patch'] = d0.returncode
        res['confirmed'] = bool(res['suite_ok'] and d1.returncode == 1 and
                                d0.returncode == 0)
        res['checks'] = {}
        for cpid in [pid] + extra_checks:
            t0 = time.time()
            c = sh([os.path.join(VERIF, 'check'), cpid, '--tier', tier,
                    '--no-evidence'], env=dict(os.environ, VERIF_REPO=dst))
            classes = sorted(set(
                l.split()[1].split('=', 1)[1] for l in c.stdout.splitlines()
                if l.startswith('violation class=')))
            res['checks'][cpid] = {
                'tier': tier, 'rc': c.returncode,
                'result': {0: 'MISSED', 1: 'CAUGHT'}.get(c.returncode,
                                                          'ERROR'),
                'classes': classes, 'wall_s': round(time.time() - t0, 1)}
            if c.returncode not in (0, 1):
                res['checks'][cpid]['out'] = (c.stdout + c.stderr)[-1500:]
        out = os.path.join(VERIF, 'seeded', name)
        os.makedirs(out, exist_ok=True)
        for f in ('patch.diff', 'demo.py'):
            shutil.copy(os.path.join(src, f), os.path.join(out, f))
        meta['breaks_property'] = pid
        meta['confirmation'] = {
            'suite': res['suite'], 'suite_ok': res['suite_ok'],
            'demo_exit_with_patch': d1.returncode,
            'demo_exit_without_patch': d0.returncode,
            'what_i_ran': [
                'scratch copy of /repo outside /repo and /verif, '
                'patch -p1 < patch.diff',
                'tools/baseline.py <copy>  (pinned suite vs BASELINE.json)',
                'PYTHONPATH=<copy> /venv/bin/python demo.py  -> exit %d' %
                d1.returncode,
                'PYTHONPATH=/repo /venv/bin/python demo.py  -> exit %d' %
                d0.returncode,
                'VERIF_REPO=<copy> ./check %s --tier %s' % (pid, tier)],
            'check_results': res['checks']}
        with open(os.path.join(out, 'meta.json'), 'w') as f:
            json.dump(meta, f, indent=1)
        print(json.dumps(res))
        return 0
    finally:
        shutil.rmtree(tmp, ignore_errors=True)


if __name__ == '__main__':
    sys.exit(main())
