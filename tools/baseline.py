#!/venv/bin/python
"""Run the pinned test suite (guard off) and compare with BASELINE.json:
every stable_pass test must pass. Usage: tools/baseline.py [repo_dir]"""
import json
import os
import subprocess
import sys
import tempfile
import xml.etree.ElementTree as ET

repo = sys.argv[1] if len(sys.argv) > 1 else '/repo'
base = json.load(open('/root/.vp/BASELINE.json'))
fd, out = tempfile.mkstemp(suffix='.xml')
os.close(fd)
env = {k: v for k, v in os.environ.items() if not k.startswith('OSLO_UTILS_VERIF')}
cmd = ['/venv/bin/python', '-m', 'pytest', '-ra', '-q', '-p', 'no:cacheprovider',
       '--timeout=900', '--continue-on-collection-errors', '--junitxml=' + out]
p = subprocess.run(cmd, cwd=repo, env=env, capture_output=True, text=True)
passed = set()
failed = set()
for tc in ET.parse(out).getroot().iter('testcase'):
    name = '%s::%s' % (tc.get('classname'), tc.get('name'))
    bad = any(c.tag in ('failure', 'error') for c in tc)
    skipped = any(c.tag == 'skipped' for c in tc)
    if bad:
        failed.add(name)
    elif not skipped:
        passed.add(name)
os.unlink(out)
want = set(base['stable_pass'])
missing = sorted(want - passed)
print('passed=%d failed=%d stable_pass=%d missing=%d' % (len(passed), len(failed), len(want), len(missing)))
for m in missing[:20]:
    print('  NOT PASSING:', m)
newfail = sorted(failed - set(base.get('always_fail', [])))
for m in newfail[:20]:
    print('  NEW FAILURE:', m)
sys.exit(1 if missing or newfail else 0)
