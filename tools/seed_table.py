#!/venv/bin/python
"""seed_table.py <prefix-fragment>: markdown rows for seeded/<name>/ whose name
contains the fragment (e.g. '-r2-'), from their meta.json files."""
import glob
import json
import os
import re
import sys

VERIF = os.path.dirname(os.path.dirname(os.path.abspath(__file__)))


def short(t, n):
    t = re.sub(r'\s+', ' ', t or '').strip().replace('|', '/')
    return t if len(t) <= n else t[:n - 1].rsplit(' ', 1)[0] + ' ...'


frag = sys.argv[1]
print('| change | what it is | needs | caught by (violation class) |')
print('|---|---|---|---|')
for mp in sorted(glob.glob(os.path.join(VERIF, 'seeded', '*', 'meta.json'))):
    name = os.path.basename(os.path.dirname(mp))
    if frag not in name:
        continue
    m = json.load(open(mp))
    conf = m['confirmation']
    pid = m.get('breaks_property') or m['property']
    cur = conf['check_results'][pid]
    first = (conf.get('first_check_results') or {}).get(pid, cur)
    tag = ''
    if m.get('obsolete_since'):
        print('| %s | %s | %s | %s not counted: %s |' % (
            name, short(m.get('summary'), 170),
            short(m.get('needs_to_manifest'), 150), pid,
            short(m['obsolete_since'].get('why'), 260)))
        continue
    if first['result'] != 'CAUGHT':
        tag = ' (**%s at first**)' % first['result'].lower()
    print('| %s | %s | %s | %s %s%s |' % (
        name, short(m.get('summary'), 170), short(m.get('needs_to_manifest'),
                                                   150), pid,
        ', '.join(cur['classes']) if cur['result'] == 'CAUGHT'
        else '**' + cur['result'] + '**', tag))
