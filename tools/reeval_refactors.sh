#!/bin/sh
# Re-run the checks on every stored behaviour-preserving refactoring
# (refactors/<name>/): each must stay QUIET.  Image-inspector refactorings are
# run against all six image checks.  Usage: tools/reeval_refactors.sh [-P n]
cd "$(dirname "$0")/.."
one() {
    name=$1; pid=$(echo $name | cut -d- -f1)
    case $pid in
        C01|C02|C03|C05|C06|C07)
            also=$(echo "C01 C02 C03 C05 C06 C07" | tr ' ' '\n' | grep -v $pid | tr '\n' ',' | sed 's/,$//')
            tools/ingest_refactor.py $PWD/refactors/$name $name --also=$also ;;
        *) tools/ingest_refactor.py $PWD/refactors/$name $name ;;
    esac
}
for n in $(ls refactors); do
    if grep -q obsolete_since refactors/$n/meta.json; then echo "$n OBSOLETE"; continue; fi
    one $n 2>&1 | grep -v "^WARNING"
done
