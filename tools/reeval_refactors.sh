#!/bin/sh
# Re-run the checks on every stored behaviour-preserving refactoring
# (refactors/<name>/): each must stay QUIET.  Image-inspector refactorings are
# run against all six image checks.
# Usage: tools/reeval_refactors.sh [-P n] [name-fragment]
cd "$(dirname "$0")/.."
if [ "$1" = "--one" ]; then
    name=$2; pid=$(echo $name | cut -d- -f1)
    if grep -q obsolete_since refactors/$name/meta.json; then
        echo "$name OBSOLETE"; exit 0
    fi
    case $pid in
        C01|C02|C03|C05|C06|C07)
            # REEVAL_ALSO="C01 C06" limits the other image checks that are run
            also=$(echo "${REEVAL_ALSO:-C01 C02 C03 C05 C06 C07}" | tr ' ' '\n' | grep -v $pid | tr '\n' ',' | sed 's/,$//')
            tools/ingest_refactor.py $PWD/refactors/$name $name --also=$also 2>&1 | grep -v "^WARNING" ;;
        *) tools/ingest_refactor.py $PWD/refactors/$name $name 2>&1 | grep -v "^WARNING" ;;
    esac
    exit 0
fi
par=1
if [ "$1" = "-P" ]; then par=$2; shift 2; fi
ls refactors | grep -- "${1:-}" | xargs -P $par -n 1 "$0" --one
