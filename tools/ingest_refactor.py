#!/venv/bin/python
"""ingest_refactor.py <dir with patch.diff meta.json [check.py]> <name> [--also=C01,C06]

A behaviour-preserving refactoring written by an independent sub-agent: the
patch must apply, the pinned suite must still pass, and the property's own
check (plus the checks named with --also) must stay QUIET on the refactored
tree (exit 0; KNOWN-FINDING lines allowed).  Stored as /verif/refactors/<name>/.
"""
import json
import os
import shutil
import subprocess
import sys
import tempfile
import time

VERIF = os.path.dirname(os.path.dirname(os.path.abspath(__file__)))


def sh(cmd, **kw):
    return subprocess.run(cmd, capture_output=True, text=True, **kw)


def main():
    src, name = sys.argv[1], sys.argv[2]
    also = []
    for a in sys.argv[3:]:
        if a.startswith('--also='):
            also = a.split('=')[1].split(',')
    meta = json.load(open(os.path.join(src, 'meta.json')))
    pid = meta.get('property') or name.split('-')[0]
    tmp = tempfile.mkdtemp(prefix='verif-ref-')
    res = {'name': name, 'property': pid}
    try:
        dst = os.path.join(tmp, 'repo')
        shutil.copytree('/repo', dst, ignore=shutil.ignore_patterns(
            '.git', '__pycache__', '*.pyc', 'doc', 'releasenotes'))
        p = sh(['patch', '-p1', '-s', '-i', os.path.join(src, 'patch.diff')],
               cwd=dst)
        res['applies'] = p.returncode == 0
        if p.returncode != 0:
            print(json.dumps(res), p.stdout, p.stderr)
            return 1
        q = sh([os.path.join(VERIF, 'tools', 'baseline.py'), dst])
        res['suite_ok'] = q.returncode == 0
        res['checks'] = {}
        for cpid in [pid] + also:
            t0 = time.time()
            c = sh([os.path.join(VERIF, 'check'), cpid, '--tier', 'quick',
                    '--no-evidence'], env=dict(os.environ, VERIF_REPO=dst))
            classes = sorted(set(
                l.split()[1].split('=', 1)[1] for l in c.stdout.splitlines()
                if l.startswith('violation class=')))
            r = {'rc': c.returncode, 'result': {0: 'QUIET', 1: 'ALARM'}.get(
                c.returncode, 'ERROR'), 'classes': classes,
                'wall_s': round(time.time() - t0, 1)}
            if c.returncode != 0:
                r['out'] = (c.stdout + c.stderr)[-2500:]
            res['checks'][cpid] = r
        out = os.path.join(VERIF, 'refactors', name)
        os.makedirs(out, exist_ok=True)
        for f in ('patch.diff', 'meta.json', 'check.py'):
            if os.path.exists(os.path.join(src, f)) and \
                    os.path.realpath(src) != os.path.realpath(out):
                shutil.copy(os.path.join(src, f), os.path.join(out, f))
        meta['verification'] = {'suite_ok': res['suite_ok'],
                                'check_results': res['checks']}
        json.dump(meta, open(os.path.join(out, 'meta.json'), 'w'), indent=1)
        brief = {k: (v['result'], v['classes']) for k, v in
                 res['checks'].items()}
        print(name, 'suite_ok=%s' % res['suite_ok'], brief)
        return 0
    finally:
        shutil.rmtree(tmp, ignore_errors=True)


if __name__ == '__main__':
    sys.exit(main())
