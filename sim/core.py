"""Core of the simulator: seed derivation, per-component PRNG streams, the
event log and its digest, small JSON helpers.

One integer decides everything: a run is identified by ``run_seed`` which is
derived from (property id, VERIF_SEED, run index).  Every component of a run
draws from its *own* stream derived from (run_seed, label) so that adding a
draw in one component never perturbs another one.
"""
import hashlib
import json
import os
import random
import sys


def _h64(text):
    return int.from_bytes(
        hashlib.blake2b(text.encode('utf-8'), digest_size=8).digest(), 'big')


def derive_run_seed(prop, batch_seed, index):
    return _h64('%s/%d/%d' % (prop, batch_seed, index))


class Streams:
    """Factory of independent PRNG streams for one run."""

    def __init__(self, run_seed):
        self.run_seed = run_seed
        self._cache = {}

    def get(self, label):
        r = self._cache.get(label)
        if r is None:
            r = random.Random(_h64('%d/%s' % (self.run_seed, label)))
            self._cache[label] = r
        return r

    __call__ = get


class EventLog:
    """Append-only list of small tuples; digest over canonical JSON.

    Logging never draws from a PRNG and never reads a clock.
    """

    __slots__ = ('events', 'enabled')

    def __init__(self, enabled=True):
        self.events = []
        self.enabled = enabled

    def add(self, *ev):
        if self.enabled:
            self.events.append(ev)

    def digest(self):
        return digest_of(self.events)


def canon(obj):
    return json.dumps(obj, sort_keys=True, separators=(',', ':'),
                      default=_default)


def _default(o):
    if isinstance(o, (bytes, bytearray)):
        return 'hex:' + bytes(o).hex()
    if isinstance(o, (set, frozenset)):
        return sorted(o, key=repr)
    if isinstance(o, tuple):
        return list(o)
    return repr(o)


def digest_of(obj):
    return hashlib.blake2b(canon(obj).encode('utf-8'),
                           digest_size=12).hexdigest()


class HarnessError(Exception):
    """A problem inside the harness; never reported as a VIOLATION."""


class StepCapExceeded(BaseException):
    """Raised by simulated sources when the SUT reads without bound.

    BaseException so that ``except Exception`` inside the SUT cannot swallow
    it.
    """


def repo_root():
    return os.environ.get('VERIF_REPO', '/repo')


def import_sut():
    """Put the working tree first on sys.path and check we import from it."""
    root = os.path.realpath(repo_root())
    if sys.path[0] != root:
        sys.path.insert(0, root)
    sys.dont_write_bytecode = True
    import oslo_utils
    got = os.path.realpath(os.path.dirname(oslo_utils.__file__))
    if not got.startswith(root + os.sep):
        raise HarnessError('oslo_utils imported from %s, expected under %s'
                           % (got, root))
    return root


def variant():
    """'' or 'strict': the interpreter configuration this process stands for
    (see DESIGN.md 3.8).  'strict' = python -O (assert statements and
    `if __debug__` blocks are compiled away) with warnings turned into
    errors."""
    return os.environ.get('VERIF_VARIANT', '')


def apply_variant():
    """Called once the SUT and the harness have been imported."""
    if variant() != 'strict':
        return
    if not sys.flags.optimize:
        raise HarnessError('VERIF_VARIANT=strict needs python -O')
    import warnings
    warnings.resetwarnings()
    warnings.simplefilter('error')
    # what an application running with -W error still has to live with:
    # deprecations announced by the standard library itself (the pinned tree
    # calls datetime.utcnow()), import and resource notices
    for c in (DeprecationWarning, PendingDeprecationWarning, ImportWarning,
              ResourceWarning):
        warnings.simplefilter('ignore', c)


def exc_name(e):
    return 'EXC:' + type(e).__name__


def weighted(rng, items):
    """items: list of (value, weight)."""
    total = sum(w for _v, w in items)
    x = rng.random() * total
    acc = 0.0
    for v, w in items:
        acc += w
        if x < acc:
            return v
    return items[-1][0]


# ------------------------------------------------------------------ scratch
# One scratch root per check invocation, created and removed by the process
# that runs the batch (sim.runner.main); every worker gets one sub-directory
# that its forked block children share (blocks of a worker run one after the
# other).  Children leave through os._exit, so nothing may depend on their
# atexit handlers.
_SCRATCH = {'root': None, 'dir': None, 'own': None}


def scratch_base():
    base = os.environ.get('VERIF_SCRATCH')
    if base:
        os.makedirs(base, exist_ok=True)
        return base
    return '/dev/shm' if os.path.isdir('/dev/shm') else None


def make_scratch_root():
    import tempfile
    _SCRATCH['root'] = tempfile.mkdtemp(prefix='verif-run-',
                                        dir=scratch_base())
    return _SCRATCH['root']


def drop_scratch_root():
    import shutil
    if _SCRATCH['root']:
        shutil.rmtree(_SCRATCH['root'], ignore_errors=True)
        _SCRATCH['root'] = None
        _SCRATCH['dir'] = None


def claim_worker_scratch():
    """Called once in every process that forks block children."""
    if _SCRATCH['root']:
        d = os.path.join(_SCRATCH['root'], 'w%d' % os.getpid())
        os.makedirs(d, exist_ok=True)
        _SCRATCH['dir'] = d


def scratch_dir(tag):
    """Directory for check `tag` (exists; contents are the caller's)."""
    d = _SCRATCH['dir']
    if d is None:
        # ad-hoc use outside the runner (selftests, interactive): own
        # directory, removed at interpreter exit
        if _SCRATCH['own'] is None or _SCRATCH['own'][0] != os.getpid():
            import atexit
            import shutil
            import tempfile
            own = tempfile.mkdtemp(prefix='verif-adhoc-', dir=scratch_base())
            atexit.register(shutil.rmtree, own, True)
            _SCRATCH['own'] = (os.getpid(), own)
        d = _SCRATCH['own'][1]
    out = os.path.join(d, tag)
    os.makedirs(out, exist_ok=True)
    return out
