"""Simulated byte sources and the chunk-schedule generator.

A schedule is a composition of the stream length into chunk sizes (zeros are
empty chunks).  It is stored run-length encoded: [[size, count], ...].
"""
import errno
import os

from sim.core import StepCapExceeded, weighted


def rle(sizes):
    out = []
    for s in sizes:
        if out and out[-1][0] == s:
            out[-1][1] += 1
        else:
            out.append([s, 1])
    return out


def expand(r):
    out = []
    for s, c in r:
        out.extend([s] * c)
    return out


def n_chunks(r):
    return sum(c for _s, c in r)


def total_len(r):
    return sum(s * c for s, c in r)


def cuts_to_sizes(cuts, n):
    cuts = sorted(set(c for c in cuts if 0 < c < n))
    sizes = []
    prev = 0
    for c in cuts:
        sizes.append(c - prev)
        prev = c
    sizes.append(n - prev)
    if n == 0:
        return []
    return sizes


def sizes_to_cuts(sizes):
    cuts = []
    pos = 0
    for s in sizes[:-1]:
        pos += s
        cuts.append(pos)
    return cuts


UNIFORM_SIZES = (1, 7, 17, 64, 511, 512, 513, 4096, 65536, 1 << 20)


def uniform_sizes(n, k):
    if n == 0:
        return []
    q, r = divmod(n, k)
    return [k] * q + ([r] if r else [])


def max_uniform_ok(n, k, max_chunks):
    return n // k <= max_chunks


def gen_schedule(rng, n, boundaries, allow_empty=True, max_chunks=6000,
                 family=None):
    """Returns (family_name, rle_schedule) for a stream of n bytes."""
    fams = [('whole', 2), ('whole+empty', 1), ('uniform', 5),
            ('boundary', 6), ('window', 4), ('random', 4), ('mixed', 2)]
    if not allow_empty:
        fams = [f for f in fams if f[0] != 'whole+empty']
    if not boundaries:
        fams = [f for f in fams if f[0] not in ('boundary', 'window')]
    fam = family or weighted(rng, fams)
    if n == 0:
        return 'empty', ([[0, rng.randrange(0, 3)]] if allow_empty else [])
    if fam == 'whole':
        sizes = [n]
    elif fam == 'whole+empty':
        sizes = [n, 0] if rng.random() < 0.7 else [0, n, 0]
    elif fam == 'uniform':
        ks = [k for k in UNIFORM_SIZES if max_uniform_ok(n, k, max_chunks)]
        k = rng.choice(ks) if ks else n
        fam = 'uniform(%d)' % k
        return fam, _maybe_empty(rng, rle(uniform_sizes(n, k)), allow_empty, max_chunks)
    elif fam == 'boundary':
        k = rng.randint(1, min(4, len(boundaries)))
        bs = rng.sample(boundaries, k)
        cuts = [b + rng.choice((-1, 0, 0, 1)) for b in bs]
        sizes = cuts_to_sizes(cuts, n)
        fam = 'boundary(%d)' % k
    elif fam == 'window':
        k = rng.randint(1, min(2, len(boundaries)))
        bs = rng.sample(boundaries, k)
        w = rng.choice((2, 8, 40))
        coarse = rng.choice((512, 4096, 65536, n))
        cuts = set()
        for b in bs:
            cuts.update(range(max(1, b - w), min(n, b + w + 1)))
        if coarse < n and n // coarse <= max_chunks:
            cuts.update(range(coarse, n, coarse))
        sizes = cuts_to_sizes(cuts, n)
    elif fam == 'random':
        hi = max(1, min(200, n - 1))
        k = int(round(hi ** rng.random()))
        cuts = [rng.randrange(1, n) for _ in range(k)] if n > 1 else []
        if boundaries and rng.random() < 0.5:
            cuts.append(rng.choice(boundaries) + rng.choice((-1, 0, 1)))
        sizes = cuts_to_sizes(cuts, n)
    elif fam == 'mixed':
        # a prefix read in small pieces, the remainder in large ones
        small = rng.choice((1, 3, 7, 32, 64))
        upto = min(n, rng.choice((16, 64, 600, 4096)))
        big = rng.choice((512, 4096, 65536, 1 << 20))
        sizes = uniform_sizes(upto, small) + uniform_sizes(n - upto, big)
        if len(sizes) > max_chunks:
            sizes = [upto, n - upto] if n > upto else [n]
    else:
        raise ValueError(fam)
    return fam, _maybe_empty(rng, rle(sizes), allow_empty, max_chunks)


STALL_RUNS = (200, 1500, 4000)


def _maybe_empty(rng, r, allow_empty, max_chunks=6000):
    """Interleave a few empty chunks (swarm: in about a quarter of runs);
    now and then the source stalls: it has nothing to deliver many times in
    a row before the stream goes on."""
    if not allow_empty or rng.random() > 0.25:
        return r
    sizes_n = n_chunks(r)
    if rng.random() < 0.08:
        k = rng.choice(STALL_RUNS)
        if sizes_n + k <= max_chunks:
            at = rng.randint(0, len(r))
            return _rle_norm(r[:at] + [[0, k]] + r[at:])
    if sizes_n > 4000:
        # put empties at the ends only (cheap)
        return [[0, 1]] + r + [[0, 1]]
    sizes = expand(r)
    for _ in range(rng.randint(1, 3)):
        sizes.insert(rng.randint(0, len(sizes)), 0)
    return rle(sizes)


def _rle_norm(r):
    out = []
    for size, cnt in r:
        if out and out[-1][0] == size:
            out[-1][1] += cnt
        else:
            out.append([size, cnt])
    return out


def signature(r, boundaries):
    """Boundary-relative signature of a schedule: for every structure boundary
    whether a cut fell at b-1, b, b+1 (or none), plus flags."""
    sizes = expand(r) if n_chunks(r) <= 20000 else None
    if sizes is None:
        return ('dense',)
    cuts = set()
    pos = 0
    has_empty = False
    for s in sizes:
        if s == 0:
            has_empty = True
        pos += s
        cuts.add(pos)
    cuts.discard(pos)
    sig = []
    for b in boundaries:
        code = 0
        if b - 1 in cuts:
            code |= 1
        if b in cuts:
            code |= 2
        if b + 1 in cuts:
            code |= 4
        sig.append(code)
    return (tuple(sig), has_empty, len(cuts) == 0)


def cuts_in_ranges(r, ranges):
    """Does at least one cut lie strictly inside one of the structured
    ranges?"""
    if n_chunks(r) > 20000:
        return True
    pos = 0
    for s in expand(r):
        pos += s
        for a, b in ranges:
            if a < pos < b:
                return True
    return False


class ChunkMaker:
    """What a producer hands over for a chunk of the stream: a fresh bytes /
    bytearray / memoryview object, or - the readinto() idiom - ONE buffer it
    owns and refills for every chunk: as a memoryview over the filled part
    ('mv_reused'), or as the bytearray itself whenever the chunk fills it
    ('ba_reused').  Whoever is handed such a chunk has to copy what it wants
    to keep: the buffer is overwritten for the next chunk and scrubbed when
    the stream has been delivered."""

    FRESH = {'bytes': bytes, 'bytearray': bytearray, 'memoryview': memoryview}
    KINDS = tuple(FRESH) + ('mv_reused', 'ba_reused')
    SCRUB = 0xA5

    def __init__(self, kind, sizes):
        self.kind = kind or 'bytes'
        self.buf = None
        self.reused = 0
        if self.kind in ('mv_reused', 'ba_reused'):
            sizes = [x for x in sizes if x] or [1]
            # the producer's buffer is as large as its usual read
            big = max(sizes)
            usual = max(set(sizes), key=lambda x: (sizes.count(x), x))
            self.buf = bytearray(usual if self.kind == 'ba_reused' else big)

    def make(self, chunk):
        if self.buf is None:
            conv = self.FRESH[self.kind]
            return chunk if conv is bytes else conv(chunk)
        n = len(chunk)
        if n > len(self.buf) or (self.kind == 'ba_reused' and
                                 n != len(self.buf)):
            # does not fit / does not fill the buffer: a copy of its own
            return bytearray(chunk) if self.kind == 'ba_reused' \
                else memoryview(bytes(chunk))
        self.scrub()
        self.buf[:n] = chunk
        self.reused += 1
        if self.kind == 'ba_reused':
            return self.buf
        return memoryview(self.buf)[:n]

    def scrub(self):
        if self.buf is not None:
            self.buf[:] = bytes([self.SCRUB]) * len(self.buf)


class SimSource:
    """Source handed to InspectWrapper.

    plan: list of returned chunk sizes (zeros allowed only for the iterator
    personality).  fault: None | {'at': k, 'exc': name} raises at the k-th
    read/next (0-based).  Counts reads; raises StepCapExceeded when read past
    a generous cap.
    """

    EXC = {'OSError': lambda: OSError(errno.EIO, 'simulated I/O error'),
           'ConnectionResetError': lambda: ConnectionResetError(
               errno.ECONNRESET, 'simulated reset'),
           'SimSourceError': lambda: SimSourceError('simulated source fault')}

    KINDS = {'bytes': bytes, 'bytearray': bytearray,
             'memoryview': memoryview}

    def __init__(self, data, plan, fault=None, has_close=True, kind=None):
        self.maker = ChunkMaker(kind, plan)
        self.data = data
        self.plan = list(plan)
        self.k = 0
        self.pos = 0
        self.reads = 0
        self.closed = 0
        self.fault = fault
        self.raised = None
        self.delivered = []
        self.stopped = False       # iterator personality: StopIteration raised
        self.cap = len(self.plan) + 16
        if not has_close:
            self.close = None

    def _fault_check(self):
        self.reads += 1
        if self.reads > self.cap:
            raise StepCapExceeded('source read %d times' % self.reads)
        if self.fault is not None and self.fault['at'] == self.reads - 1:
            self.raised = self.EXC[self.fault['exc']]()
            raise self.raised

    def _take(self, limit=None):
        if self.k >= len(self.plan):
            n = len(self.data) - self.pos
        else:
            n = self.plan[self.k]
            self.k += 1
        if limit is not None and limit >= 0:
            n = min(n, limit)
        chunk = self.data[self.pos:self.pos + n]
        self.pos += len(chunk)
        self.delivered.append(chunk)
        return chunk

    def _out(self, chunk):
        # what the consumer is handed: bytes, or another bytes-like kind
        return self.maker.make(chunk)

    # file personality
    def read(self, size=-1):
        self._fault_check()
        chunk = self._take(size)
        if not chunk:
            self.maker.scrub()
        return self._out(chunk)

    # iterator personality
    def __iter__(self):
        return self

    def __next__(self):
        self._fault_check()
        if self.k >= len(self.plan) and self.pos >= len(self.data):
            self.stopped = True
            self.maker.scrub()
            raise StopIteration
        return self._out(self._take())

    def close(self):
        self.closed += 1
        self.maker.scrub()


class SimSourceError(Exception):
    pass


class ReadintoSource(SimSource):
    """File personality that also offers readinto() (io.BytesIO and real
    files do): fills at most what the plan says, never more than the buffer
    holds, and counts as one read."""

    current_req = None      # what the reader asked the wrapper for

    def readinto(self, b):
        self._fault_check()
        mv = memoryview(b)
        want = len(mv)
        if self.current_req is not None and want > self.current_req and \
                self.k < len(self.plan):
            # asked for more than the reader wanted: a file hands out the
            # extra as well
            self.plan[self.k] += want - self.current_req
        chunk = self._take(want)
        mv[:len(chunk)] = chunk
        self.readinto_calls = getattr(self, 'readinto_calls', 0) + 1
        return len(chunk)

    def readable(self):
        return True


class NoCloseSource(SimSource):
    """A source without a close attribute at all."""
    close = property()


class SimFile:
    """What the ``open`` seam returns: an in-memory binary file with short
    reads, read faults, seek/tell, context-manager protocol."""

    def __init__(self, data, short=None, fault=None, seek_fault=None,
                 name='<sim>', cyclic=False):
        self.cyclic = cyclic
        self.data = data
        self.pos = 0
        self.short = list(short or [])
        self.fault = fault          # {'at': k, 'errno': e}
        self.seek_fault = seek_fault  # {'errno': e} applied to first seek
        self.reads = 0
        self.nonempty_reads = 0
        self.closed = 0
        self.name = name
        self.cap = None
        self.seeks = []

    def __enter__(self):
        return self

    def __exit__(self, *a):
        self.close()
        return False

    def close(self):
        self.closed += 1
        fd = getattr(self, '_fd', None)
        if fd is not None:
            self._fd = None
            try:
                os.close(fd)
            except OSError:
                pass

    def fileno(self):
        """A descriptor of the real file of the same name and content, when
        there is one (os.fstat(f.fileno()) then reports the right size);
        like io.BytesIO, unsupported otherwise."""
        if getattr(self, '_fd', None) is None:
            if not (isinstance(self.name, str) and os.path.isfile(self.name)):
                import io
                raise io.UnsupportedOperation('fileno')
            self._fd = os.open(self.name, os.O_RDONLY)
        return self._fd

    def read(self, size=-1):
        if self.closed:
            raise ValueError('I/O operation on closed file.')
        self.reads += 1
        cap = self.cap if self.cap is not None else len(self.data) + 16
        if self.reads > cap:
            raise StepCapExceeded('file read %d times' % self.reads)
        if self.fault is not None and self.fault['at'] == self.reads - 1:
            e = self.fault['errno']
            raise OSError(e, 'simulated read error')
        avail = len(self.data) - self.pos
        if size is None or size < 0:
            n = avail
        else:
            n = min(size, avail)
        if self.short and n > 0 and (self.cyclic or
                                     self.reads <= len(self.short)):
            lim = self.short[(self.reads - 1) % len(self.short)]
            if lim:
                n = max(1, min(n, lim))
        chunk = self.data[self.pos:self.pos + n]
        self.pos += n
        if chunk:
            self.nonempty_reads += 1
        return chunk

    def readinto(self, b):
        data = self.read(len(b))
        b[:len(data)] = data
        return len(data)

    def readable(self):
        return True

    def seekable(self):
        return True

    def seek(self, off, whence=0):
        self.seeks.append((off, whence))
        if self.seek_fault is not None and len(self.seeks) == 1:
            raise OSError(self.seek_fault['errno'], 'simulated seek error')
        if whence == 0:
            new = off
        elif whence == 1:
            new = self.pos + off
        else:
            new = len(self.data) + off
        if new < 0:
            raise OSError(errno.EINVAL, 'Invalid argument')
        self.pos = new
        return new

    def tell(self):
        return self.pos
