"""Cooperative task schedulers: the simulator decides who runs next at every
yield point.  Two engines: greenlets, and real threads that are parked on
events and released one at a time (baton passing)."""
import threading

try:
    import greenlet
except Exception:           # pragma: no cover
    greenlet = None


class TaskFailure(Exception):
    pass


def run_greenlets(bodies, rng, trace):
    """bodies: list of callables taking yield_fn. Runs them to completion,
    interleaved at yield points by rng."""
    main = greenlet.getcurrent()
    errors = {}

    def wrap(i, body):
        def g():
            try:
                body(lambda: main.switch())
            except BaseException as e:      # harness bug inside a task
                errors[i] = e
        return g
    gls = [greenlet.greenlet(wrap(i, b), parent=main)
           for i, b in enumerate(bodies)]
    runnable = list(range(len(gls)))
    steps = 0
    while runnable:
        i = runnable[rng.randrange(len(runnable))] if len(runnable) > 1 \
            else runnable[0]
        trace.append(i)
        gls[i].switch()
        if gls[i].dead:
            runnable.remove(i)
        steps += 1
        if steps > 10000:
            raise TaskFailure('scheduler step cap')
    if errors:
        i = sorted(errors)[0]
        raise TaskFailure('task %d: %r' % (i, errors[i])) from errors[i]


def run_threads(bodies, rng, trace):
    n = len(bodies)
    go = [threading.Event() for _ in range(n)]
    back = threading.Event()
    done = [False] * n
    errors = {}

    def wrap(i, body):
        def yield_fn():
            back.set()
            go[i].wait()
            go[i].clear()

        def t():
            go[i].wait()
            go[i].clear()
            try:
                body(yield_fn)
            except BaseException as e:
                errors[i] = e
            finally:
                done[i] = True
                back.set()
        return t
    threads = [threading.Thread(target=wrap(i, b), daemon=True)
               for i, b in enumerate(bodies)]
    for t in threads:
        t.start()
    runnable = list(range(n))
    steps = 0
    while runnable:
        i = runnable[rng.randrange(len(runnable))] if len(runnable) > 1 \
            else runnable[0]
        trace.append(i)
        back.clear()
        go[i].set()
        if not back.wait(30):
            raise TaskFailure('task %d did not yield within 30s' % i)
        if done[i]:
            runnable.remove(i)
        steps += 1
        if steps > 10000:
            raise TaskFailure('scheduler step cap')
    for t in threads:
        t.join(5)
    if errors:
        i = sorted(errors)[0]
        raise TaskFailure('task %d: %r' % (i, errors[i])) from errors[i]


def run_threads_preemptive(bodies, rng, trace, files, prob=0.25):
    """Baton-passed real threads with additional pre-emption points: every
    'line' event inside the SUT files `files` (matched by suffix of the code
    object's file name) is a yield point with probability `prob`.  Only the
    thread that holds the baton runs, so the draws from `rng` happen in one
    well-defined order and a seed replays exactly."""
    import sys
    n = len(bodies)
    go = [threading.Event() for _ in range(n)]
    back = threading.Event()
    done = [False] * n
    errors = {}
    stats = {'preemptions': 0}

    def wrap(i, body):
        def yield_fn():
            back.set()
            go[i].wait()
            go[i].clear()

        def local(frame, event, arg):
            if event == 'line' and rng.random() < prob:
                stats['preemptions'] += 1
                yield_fn()
            return local

        def tracer(frame, event, arg):
            if event == 'call' and frame.f_code.co_filename.endswith(files):
                return local
            return None

        def t():
            go[i].wait()
            go[i].clear()
            sys.settrace(tracer)
            try:
                body(yield_fn)
            except BaseException as e:
                errors[i] = e
            finally:
                sys.settrace(None)
                done[i] = True
                back.set()
        return t
    threads = [threading.Thread(target=wrap(i, b), daemon=True)
               for i, b in enumerate(bodies)]
    for t in threads:
        t.start()
    runnable = list(range(n))
    steps = 0
    while runnable:
        i = runnable[rng.randrange(len(runnable))] if len(runnable) > 1 \
            else runnable[0]
        trace.append(i)
        back.clear()
        go[i].set()
        if not back.wait(30):
            raise TaskFailure('task %d did not yield within 30s' % i)
        if done[i]:
            runnable.remove(i)
        steps += 1
        if steps > 20000:
            raise TaskFailure('scheduler step cap')
    for t in threads:
        t.join(5)
    if errors:
        i = sorted(errors)[0]
        raise TaskFailure('task %d: %r' % (i, errors[i])) from errors[i]
    return stats


def run_tasks(engine, bodies, rng, trace, files=None):
    if engine == 'preempt':
        return run_threads_preemptive(bodies, rng, trace, files or ())
    if engine == 'greenlet' and greenlet is not None:
        return run_greenlets(bodies, rng, trace)
    if engine in ('thread', 'greenlet'):
        return run_threads(bodies, rng, trace)
    # 'plain': sequential, yields are no-ops
    for i, b in enumerate(bodies):
        trace.append(i)
        b(lambda: None)
