"""Batch runner: seeded search over many simulated runs, minimisation,
replay files, known findings, evidence.

Exit codes: 0 held (possibly with KNOWN-FINDING lines), 1 VIOLATION,
2 harness error / budget overrun / non-reproducing replay.
"""
import argparse
import collections
import concurrent.futures
import faulthandler
import importlib
import json
import multiprocessing
import os
import signal
import subprocess
import sys
import time
import traceback

from sim import core

VERIF = os.path.dirname(os.path.dirname(os.path.abspath(__file__)))
PY = sys.executable
RUN_ALARM_S = 180
MAX_DISTINCT = 3_000_000


class Check:
    """Base class of a property check."""
    ID = ''
    LEVEL = 'exploration'
    RUNS = {'quick': 100, 'thorough': 1000}
    BLOCK = 50
    RULE = ''
    COMPONENTS = {}
    ASSUMPTIONS = []
    FAULT_KINDS = ()      # every kind this check can inject (reported even at 0)
    PROBES = ()

    def setup(self):
        pass

    def warm(self):
        """Import everything a run needs, in the process that forks the
        block children (imports only - nothing of the SUT is executed)."""
        core.import_sut()
        import oslo_utils.excutils          # noqa: F401
        import oslo_utils.fileutils         # noqa: F401
        import oslo_utils.fixture           # noqa: F401
        import oslo_utils.timeutils         # noqa: F401
        import oslo_utils.imageutils.cli    # noqa: F401
        from sim import imgsim
        imgsim.fi()

    def gen(self, streams, tier, index, total):
        raise NotImplementedError

    def execute(self, case):
        """-> dict(violations=[{'cls','detail'}], digest=str, stats={...})"""
        raise NotImplementedError

    def reducers(self, case):
        return iter(())

    def finding(self, case, violation):
        return None

    def sample(self, case):
        return case

    def subkey(self, case, violation):
        """Extra grouping of violations (e.g. the inspector concerned)."""
        return violation.get('detail', {}).get('inspector')

    def extra_coverage(self, agg):
        return {}


def load_check(pid):
    mod = importlib.import_module('checks.' + pid.lower())
    return mod.CHECK


class RunTimeout(BaseException):
    pass


def _alarm(_sig, _frm):
    raise RunTimeout()


_WORKER = {}


def _worker_init(pid):
    chk = load_check(pid)
    chk.setup()
    chk.warm()
    _WORKER['chk'] = chk
    core.apply_variant()
    core.claim_worker_scratch()
    faulthandler.enable()
    signal.signal(signal.SIGALRM, _alarm)


def new_agg():
    return {'faults': collections.Counter(), 'probes': collections.Counter(),
            'families': collections.Counter(), 'sim': collections.Counter(),
            'classes': collections.Counter(), 'distinct': set(),
            'fault_free_runs': 0, 'fault_runs': 0}


def merge_stats(agg, st):
    for k in ('faults', 'probes', 'families', 'sim', 'classes'):
        for kk, vv in (st.get(k) or {}).items():
            agg[k][kk] += vv
    d = st.get('distinct')
    if d and len(agg['distinct']) < MAX_DISTINCT:
        agg['distinct'].update(d)
    if st.get('faulty'):
        agg['fault_runs'] += 1
    else:
        agg['fault_free_runs'] += 1


def _run_block(args):
    """Run one block of consecutive runs in a forked child of the worker, so
    that every block starts from a process in which the SUT has merely been
    imported: whatever state the SUT keeps per process (caches, class or
    module attributes) can only travel from one run to a later run of the
    SAME block - never depends on which worker happened to execute which
    block before - and a violation that needs such state is reproducible from
    the block's prefix."""
    import pickle
    r, w = os.pipe()
    child = os.fork()
    if child == 0:
        try:
            os.close(r)
            try:
                out = _run_block_inner(args)
            except BaseException:
                out = {'error': 'block %r failed:\n%s' % (
                    args[3:5], traceback.format_exc())}
            with os.fdopen(w, 'wb') as f:
                pickle.dump(out, f, protocol=pickle.HIGHEST_PROTOCOL)
        finally:
            os._exit(0)
    os.close(w)
    with os.fdopen(r, 'rb') as f:
        data = f.read()
    os.waitpid(child, 0)
    if not data:
        return {'error': 'block %r: child died without a result' % (
            args[3:5],)}
    return pickle.loads(data)


def _run_block_inner(args):
    pid, batch_seed, tier, start, stop, total = args
    chk = _WORKER['chk']
    agg = new_agg()
    digests = []
    viols = []
    samples = []
    for i in range(start, stop):
        run_seed = core.derive_run_seed(pid, batch_seed, i)
        streams = core.Streams(run_seed)
        case = None
        signal.setitimer(signal.ITIMER_REAL, RUN_ALARM_S)
        try:
            case = chk.gen(streams, tier, i, total)
            res = chk.execute(case)
        except RunTimeout:
            signal.setitimer(signal.ITIMER_REAL, 0)
            return {'error': 'run %d (seed %d) exceeded %ds\ncase=%s' % (
                i, run_seed, RUN_ALARM_S, core.canon(case)[:2000])}
        except BaseException:
            signal.setitimer(signal.ITIMER_REAL, 0)
            return {'error': 'harness error in run %d (seed %d):\n%s\ncase=%s'
                    % (i, run_seed, traceback.format_exc(),
                       core.canon(case)[:2000])}
        signal.setitimer(signal.ITIMER_REAL, 0)
        # the batch digest covers what was generated as well as what was
        # observed
        digests.append((core.digest_of(case), res['digest']))
        merge_stats(agg, res['stats'])
        if i < 3 or (i % 997 == 0 and len(samples) < 6):
            samples.append(chk.sample(case))
        for v in res['violations']:
            if len(viols) < 40:
                viols.append({'index': i, 'run_seed': run_seed, 'case': case,
                              'violation': v, 'digest': res['digest']})
            agg['classes']['VIOL:' + v['cls']] += 1
    agg['distinct'] = list(agg['distinct'])
    for k in ('faults', 'probes', 'families', 'sim', 'classes'):
        agg[k] = dict(agg[k])
    return {'start': start, 'agg': agg, 'digest': core.digest_of(digests),
            'viols': viols, 'samples': samples, 'n': stop - start}


def run_batch(chk, tier, batch_seed, runs, workers, start=0):
    pid = chk.ID
    block = chk.BLOCK
    stop = start + runs
    jobs = [(pid, batch_seed, tier, s, min(s + block, stop), stop)
            for s in range(start, stop, block)]
    agg = new_agg()
    block_digests = {}
    viols = []
    samples = []
    errors = []
    done = 0
    if workers <= 1:
        _worker_init(pid)
        results = map(_run_block, jobs)
        pool = None
    else:
        ctx = multiprocessing.get_context('fork')
        pool = concurrent.futures.ProcessPoolExecutor(
            max_workers=workers, mp_context=ctx, initializer=_worker_init,
            initargs=(pid,))
        results = pool.map(_run_block, jobs)
    try:
        for r in results:
            if 'error' in r:
                errors.append(r['error'])
                break
            done += r['n']
            a = r['agg']
            for k in ('faults', 'probes', 'families', 'sim', 'classes'):
                for kk, vv in a[k].items():
                    agg[k][kk] += vv
            if len(agg['distinct']) < MAX_DISTINCT:
                agg['distinct'].update(a['distinct'])
            agg['fault_runs'] += a['fault_runs']
            agg['fault_free_runs'] += a['fault_free_runs']
            block_digests[r['start']] = r['digest']
            viols.extend(r['viols'])
            for s in r['samples']:
                if len(samples) < 8:
                    samples.append(s)
    except concurrent.futures.process.BrokenProcessPool as e:
        errors.append('worker died: %r' % (e,))
    finally:
        if pool is not None:
            pool.shutdown(wait=True, cancel_futures=True)
    digest = core.digest_of([block_digests[k] for k in sorted(block_digests)])
    viols.sort(key=lambda v: v['index'])
    return {'agg': agg, 'digest': digest, 'viols': viols, 'samples': samples,
            'errors': errors, 'done': done}


# ------------------------------------------------------------- isolation

def isolated_execute(chk, case, timeout=120):
    """Execute one case in a forked child so that state the SUT keeps per
    process (caches, class attributes, module globals) cannot leak from one
    candidate to the next.  The parent never executes cases itself when it
    runs with worker processes, so every child starts from a state in which
    the SUT has only been imported."""
    r, w = os.pipe()
    pid = os.fork()
    if pid == 0:
        try:
            os.close(r)
            try:
                res = chk.execute(case)
                out = {'violations': res['violations'],
                       'digest': res['digest']}
            except BaseException:
                out = {'error': traceback.format_exc()}
            data = json.dumps(out, default=core._default).encode()
            with os.fdopen(w, 'wb') as f:
                f.write(data)
        finally:
            os._exit(0)
    os.close(w)
    chunks = []
    with os.fdopen(r, 'rb') as f:
        while True:
            b = f.read(1 << 16)
            if not b:
                break
            chunks.append(b)
    os.waitpid(pid, 0)
    if not chunks:
        raise core.HarnessError('isolated execution produced nothing')
    out = json.loads(b''.join(chunks).decode())
    if 'error' in out:
        raise core.HarnessError('isolated execution failed:\n' +
                                out['error'])
    return out


def isolated_execute_seq(chk, prelude, case, timeout=300):
    """Like isolated_execute, but the child first executes the cases of
    `prelude` in order (results ignored): for violations that need state left
    behind by earlier runs of the same block."""
    r, w = os.pipe()
    pid = os.fork()
    if pid == 0:
        try:
            os.close(r)
            try:
                for c in prelude:
                    try:
                        chk.execute(c)
                    except Exception:
                        pass
                res = chk.execute(case)
                out = {'violations': res['violations'],
                       'digest': res['digest']}
            except BaseException:
                out = {'error': traceback.format_exc()}
            data = json.dumps(out, default=core._default).encode()
            with os.fdopen(w, 'wb') as f:
                f.write(data)
        finally:
            os._exit(0)
    os.close(w)
    with os.fdopen(r, 'rb') as f:
        data = f.read()
    os.waitpid(pid, 0)
    if not data:
        raise core.HarnessError('isolated execution produced nothing')
    out = json.loads(data.decode())
    if 'error' in out:
        raise core.HarnessError('isolated execution failed:\n' + out['error'])
    return out


def block_prefix(chk, pid, batch_seed, tier, index, start, total):
    """The cases of the runs that precede run `index` in its block."""
    b0 = start + (index - start) // chk.BLOCK * chk.BLOCK
    out = []
    for i in range(b0, index):
        rs = core.derive_run_seed(pid, batch_seed, i)
        out.append(chk.gen(core.Streams(rs), tier, i, total))
    return out


def minimise_prelude(chk, prelude, case, key, max_exec=60):
    """ddmin-style: drop parts of the prelude while the violation stays."""
    execs = 0
    cur = list(prelude)
    size = max(1, len(cur) // 2)
    while size >= 1 and cur:
        i = 0
        progressed = False
        while i < len(cur) and execs < max_exec:
            cand = cur[:i] + cur[i + size:]
            execs += 1
            try:
                res = isolated_execute_seq(chk, cand, case)
            except Exception:
                i += size
                continue
            if any(vkey(chk, case, v) == key for v in res['violations']):
                cur = cand
                progressed = True
            else:
                i += size
        if execs >= max_exec:
            break
        if size == 1 and not progressed:
            break
        size = max(1, size // 2) if size > 1 else (1 if progressed else 0)
    return cur


# ------------------------------------------------------------- minimiser

def vkey(chk, case, v):
    return (v['cls'], chk.finding(case, v), chk.subkey(case, v))


def minimise(chk, case, key, max_exec=400, max_s=20.0):
    t0 = time.time()
    execs = 0
    cur = case
    progress = True
    while progress:
        progress = False
        for cand in chk.reducers(cur):
            if execs >= max_exec or time.time() - t0 > max_s:
                return cur, execs
            execs += 1
            try:
                res = isolated_execute(chk, cand)
            except Exception:
                continue
            if any(vkey(chk, cand, v) == key for v in res['violations']):
                cur = cand
                progress = True
                break
    return cur, execs


# ------------------------------------------------------------- findings

def load_findings(pid):
    path = os.path.join(VERIF, 'known_findings.json')
    try:
        with open(path) as f:
            doc = json.load(f)
    except FileNotFoundError:
        return {}, []
    open_ = {}
    fixed = []
    for e in doc.get('findings', []):
        if pid not in e.get('properties', []):
            continue
        if e.get('status') == 'open':
            open_[e['id']] = e
        elif e.get('status') == 'fixed':
            fixed.append(e)
    return open_, fixed


# ------------------------------------------------------------- replay

def write_replay(pid, item, case, violation, digest, finding, prelude=None):
    d = os.path.join(VERIF, 'replays', pid)
    os.makedirs(d, exist_ok=True)
    name = '%s-%d.json' % (violation['cls'].replace('/', '_'),
                           item['run_seed'])
    path = os.path.join(d, name)
    doc = {'property': pid, 'run_seed': item['run_seed'],
           'index': item['index'], 'finding': finding,
           'violation': violation, 'digest': digest, 'case': case}
    if core.variant():
        # found under a non-default interpreter configuration: the replay
        # re-executes itself under the same one
        doc['variant'] = core.variant()
    if prelude:
        # cases executed before `case` in the same process (state the SUT
        # keeps between calls is part of what makes the violation appear)
        doc['prelude'] = prelude
    with open(path, 'w') as f:
        json.dump(doc, f, indent=1, sort_keys=True, default=core._default)
    return path


def do_replay(chk, path):
    with open(path) as f:
        doc = json.load(f)
    need = doc.get('variant') or ''
    if need != core.variant() or \
            bool(sys.flags.optimize) != ('-O' in VARIANT_FLAGS.get(need, [])):
        env = dict(os.environ, VERIF_VARIANT=need)
        env.update(VARIANT_ENV.get(need, {}))
        if not need:
            for k in VARIANT_ENV.get(core.variant(), {}):
                env.pop(k, None)
        sys.stdout.flush()
        os.execve(PY, [PY] + VARIANT_FLAGS.get(need, []) + [
            os.path.join(VERIF, 'check'), chk.ID, '--replay', path], env)
    core.apply_variant()
    chk.setup()
    for c in doc.get('prelude') or []:
        try:
            chk.execute(c)
        except Exception:
            pass
    res = chk.execute(doc['case'])
    want = doc['violation']['cls']
    hit = [v for v in res['violations'] if v['cls'] == want]
    print('REPLAY property=%s class=%s digest=%s expected_digest=%s' % (
        chk.ID, want, res['digest'], doc.get('digest')))
    for v in res['violations']:
        print('  observed: %s %s' % (v['cls'], core.canon(v['detail'])[:600]))
    if hit and res['digest'] == doc.get('digest'):
        print('VIOLATION property=%s replay=%s' % (chk.ID, path))
        return 1
    if hit:
        print('REPRODUCED-WITH-DIFFERENT-DIGEST')
        print('VIOLATION property=%s replay=%s' % (chk.ID, path))
        return 1
    print('NOT-REPRODUCED')
    return 0


def fresh_replay_ok(pid, path):
    env = dict(os.environ)
    env['PYTHONHASHSEED'] = '1'
    env['PYTHONDONTWRITEBYTECODE'] = '1'
    p = subprocess.run([PY, os.path.join(VERIF, 'check'), pid, '--replay',
                        path], env=env, capture_output=True, text=True,
                       timeout=300)
    ok = (p.returncode == 1 and 'VIOLATION property=%s' % pid in p.stdout and
          'DIFFERENT-DIGEST' not in p.stdout)
    return ok, p.stdout + p.stderr


# ------------------------------------------------------------- variants

VARIANT_FLAGS = {'strict': ['-O']}
# ... and a process that does not live in UTC: the zone is in the environment
# BEFORE the interpreter starts, so module-level code of the SUT sees it
# (a half-hour offset with DST in both hemispheres' sense of "winter")
VARIANT_ENV = {'strict': {'TZ': 'America/St_Johns'}}
VARIANT_SHARE = 8      # one strict run for every 8 default ones


def run_variant_pass(chk, tier, batch_seed, runs, workers, start, args):
    """Run a slice of further run indexes in a fresh interpreter started
    with python -O and with warnings raised as errors: two legal ways of
    running an application that change what the SUT's own source means
    (assert statements vanish, warnings.warn() raises).  Everything else -
    generation, oracles, minimisation, replay - is the same code; a replay
    file written there records the variant and re-executes itself under
    it."""
    import tempfile
    vruns = max(min(runs, chk.BLOCK), runs // VARIANT_SHARE)
    fd, tmp = tempfile.mkstemp(prefix='variant-', suffix='.json',
                               dir=core.scratch_dir('variant'))
    os.close(fd)
    cmd = [PY] + VARIANT_FLAGS['strict'] + [
        os.path.join(VERIF, 'check'), chk.ID, '--tier', tier,
        '--runs', str(vruns), '--start', str(start + runs),
        '--workers', str(workers), '--variant-json', tmp, '--no-evidence']
    if args.digest_only:
        cmd.append('--digest-only')
    if args.no_minimise:
        cmd.append('--no-minimise')
    env = dict(os.environ, VERIF_VARIANT='strict', VERIF_SEED=str(batch_seed))
    env.update(VARIANT_ENV['strict'])
    p = subprocess.run(cmd, env=env, capture_output=True, text=True)
    try:
        with open(tmp) as f:
            doc = json.load(f)
    except (OSError, ValueError):
        doc = {'errors': ['strict-interpreter pass produced no result '
                          '(rc=%s):\n%s' % (p.returncode,
                                            (p.stdout + p.stderr)[-3000:])],
               'done': 0}
    finally:
        try:
            os.unlink(tmp)
        except OSError:
            pass
    doc['detail_lines'] = [l for l in p.stdout.splitlines()
                           if l.startswith('violation class=')]
    if p.returncode == 2 and not doc.get('errors'):
        doc['errors'] = ['strict-interpreter pass failed:\n' +
                         (p.stdout + p.stderr)[-3000:]]
    return doc


# ------------------------------------------------------------- main

def main(argv=None):
    core.make_scratch_root()
    core.claim_worker_scratch()
    try:
        return _main(argv)
    finally:
        core.drop_scratch_root()


def _main(argv=None):
    ap = argparse.ArgumentParser()
    ap.add_argument('pid')
    ap.add_argument('--tier', default=None)
    ap.add_argument('--replay', default=None)
    ap.add_argument('--runs', type=int, default=None)
    ap.add_argument('--workers', type=int, default=None)
    ap.add_argument('--start', type=int, default=0,
                    help='first run index (self-tests: skip a sweep layer)')
    ap.add_argument('--no-evidence', action='store_true')
    ap.add_argument('--digest-only', action='store_true')
    ap.add_argument('--no-minimise', action='store_true')
    ap.add_argument('--no-variant', action='store_true',
                    help='skip the strict-interpreter pass')
    ap.add_argument('--variant-json', default=None, help=argparse.SUPPRESS)
    args = ap.parse_args(argv)
    pid = args.pid.upper()
    t0 = time.time()
    try:
        core.import_sut()
        chk = load_check(pid)
    except Exception:
        traceback.print_exc()
        return 2
    if args.replay:
        try:
            return do_replay(chk, args.replay)
        except Exception:
            traceback.print_exc()
            return 2
    env_tier = os.environ.get('VERIF_TIER')
    tier = args.tier or env_tier or 'quick'
    tier_note = None
    if args.tier and env_tier and env_tier != args.tier:
        tier_note = 'VERIF_TIER=%s ignored, --tier %s wins' % (env_tier, tier)
    if tier not in ('quick', 'thorough'):
        print('unknown tier %r' % tier, file=sys.stderr)
        return 2
    try:
        batch_seed = int(os.environ.get('VERIF_SEED', '0') or 0)
    except ValueError:
        batch_seed = core._h64(os.environ['VERIF_SEED']) % (1 << 31)
    runs = args.runs if args.runs is not None else chk.RUNS[tier]
    workers = args.workers or int(os.environ.get('VERIF_WORKERS', '0') or 0) \
        or min(16, os.cpu_count() or 1)
    print('check %s tier=%s VERIF_SEED=%d runs=%d workers=%d repo=%s' % (
        pid, tier, batch_seed, runs, workers, core.repo_root()))
    sys.stdout.flush()
    core.apply_variant()
    out = run_batch(chk, tier, batch_seed, runs, workers, start=args.start)
    var = None
    if not core.variant() and not args.no_variant and not out['errors']:
        var = run_variant_pass(chk, tier, batch_seed, runs, workers,
                               args.start, args)
    wall = time.time() - t0
    if args.digest_only:
        dg = out['digest']
        if var is not None:
            dg = core.digest_of([dg, var.get('digest')])
        print('BATCH-DIGEST %s runs=%d' % (
            dg, out['done'] + (var or {}).get('done', 0)))
        for e in out['errors'] + (var or {}).get('errors', []):
            print('HARNESS-ERROR ' + e)
        if core.variant() and args.variant_json:
            with open(args.variant_json, 'w') as f:
                json.dump({'digest': out['digest'], 'done': out['done'],
                           'errors': out['errors'],
                           'rc': 1 if out['viols'] else 0}, f)
        bad = out['errors'] or (var or {}).get('errors')
        anyv = out['viols'] or (var or {}).get('rc') == 1
        return 2 if bad else (1 if anyv else 0)

    open_f, fixed_f = load_findings(pid)
    rc = 0
    known_lines = []
    viol_lines = []
    groups = collections.OrderedDict()
    for item in out['viols']:
        k = vkey(chk, item['case'], item['violation'])
        groups.setdefault(k, []).append(item)
    harness_errors = list(out['errors'])
    chk.setup()
    for k, items in groups.items():
        cls, fid, _sub = k
        item = items[0]
        if fid is not None and fid in open_f:
            e = open_f[fid]
            known_lines.append(
                'KNOWN-FINDING: property=%s %s: %s [class %s, %d run(s), '
                'first seed %d]' % (pid, fid, e['what'], cls, len(items),
                                    item['run_seed']))
            continue
        case = item['case']
        try:
            res = isolated_execute(chk, case)
        except Exception:
            harness_errors.append('isolated run: ' + traceback.format_exc())
            continue
        vs = [v for v in res['violations'] if vkey(chk, case, v) == k]
        prelude = None
        if not vs:
            # needs state left behind by earlier runs of its block?
            try:
                pre = block_prefix(chk, pid, batch_seed, tier, item['index'],
                                   args.start, args.start + runs)
                res = isolated_execute_seq(chk, pre, case)
                vs = [v for v in res['violations']
                      if vkey(chk, case, v) == k]
                if vs:
                    prelude = minimise_prelude(chk, pre, case, k)
                    res = isolated_execute_seq(chk, prelude, case)
                    vs = [v for v in res['violations']
                          if vkey(chk, case, v) == k]
            except Exception:
                harness_errors.append('block-prefix run: ' +
                                      traceback.format_exc())
                vs = []
        if prelude is not None and vs:
            path = write_replay(pid, item, case, vs[0], res['digest'], fid,
                                prelude=prelude)
            ok, txt = fresh_replay_ok(pid, path)
            if not ok:
                harness_errors.append(
                    'replay %s (with prelude) did not reproduce in a fresh '
                    'interpreter:\n%s' % (path, txt[-2000:]))
                continue
            viol_lines.append('VIOLATION property=%s replay=%s' % (pid, path))
            print('violation class=%s finding=%s runs=%d prelude=%d detail=%s'
                  % (cls, fid, len(items), len(prelude),
                     core.canon(vs[0]['detail'])[:1500]))
            continue
        if not vs:
            harness_errors.append(
                'violation %s (run %d, seed %d) was observed in the batch but '
                'does not reproduce when its case is executed alone in a '
                'fresh process: it depends on state carried over from earlier '
                'runs in the same worker process (detail: %s)' % (
                    cls, item['index'], item['run_seed'],
                    core.canon(item['violation']['detail'])[:600]))
            continue
        if not args.no_minimise:
            try:
                case, _n = minimise(chk, case, k)
            except Exception:
                harness_errors.append('minimiser: ' + traceback.format_exc())
            res = isolated_execute(chk, case)
            vs = [v for v in res['violations'] if vkey(chk, case, v) == k]
        path = write_replay(pid, item, case, vs[0], res['digest'], fid)
        ok, txt = fresh_replay_ok(pid, path)
        if not ok and case is not item['case']:
            # fall back to the unminimised case
            case = item['case']
            res = isolated_execute(chk, case)
            vs = [v for v in res['violations'] if vkey(chk, case, v) == k]
            if vs:
                path = write_replay(pid, item, case, vs[0], res['digest'],
                                    fid)
                ok, txt = fresh_replay_ok(pid, path)
        if not ok:
            harness_errors.append(
                'replay %s did not reproduce in a fresh interpreter:\n%s' % (
                    path, txt[-2000:]))
            continue
        viol_lines.append('VIOLATION property=%s replay=%s' % (pid, path))
        print('violation class=%s finding=%s runs=%d detail=%s' % (
            cls, fid, len(items), core.canon(vs[0]['detail'])[:1500]))
    if var is not None:
        seen = set(l.split(':')[1].split()[1] for l in known_lines)
        for l in var.get('known_lines', []):
            fid = l.split(':')[1].split()[1]
            if fid not in seen:
                seen.add(fid)
                known_lines.append(l + ' (strict-interpreter pass)')
        for l in var.get('detail_lines', []):
            print(l + ' [strict-interpreter pass]')
        viol_lines.extend(var.get('viol_lines', []))
        harness_errors.extend(var.get('errors', []))
    for line in known_lines:
        print(line)
    for line in viol_lines:
        print(line)
    if viol_lines:
        rc = 1
    if harness_errors:
        for e in harness_errors:
            print('HARNESS-ERROR ' + e, file=sys.stderr)
        rc = 2 if rc == 0 else rc

    agg = out['agg']
    n_distinct = len(agg['distinct'])
    faults = {k: agg['faults'].get(k, 0) for k in chk.FAULT_KINDS}
    faults.update(agg['faults'])
    probes = {k: agg['probes'].get(k, 0) for k in chk.PROBES}
    probes.update(agg['probes'])
    cov = {
        'evaluations': out['done'],
        'distinct_nontrivial': n_distinct,
        'rule': chk.RULE,
        'samples': out['samples'][:6],
        'runs_per_hour': int(out['done'] / max(wall, 1e-6) * 3600),
        'workers': workers,
        'batch_digest': out['digest'],
        'seeds': {'VERIF_SEED': batch_seed,
                  'derivation': 'run_seed=blake2b("%s/<VERIF_SEED>/<i>")[:8], '
                                'i in [0,%d)' % (pid, out['done'])},
        'faults_fired': dict(sorted(faults.items())),
        'fault_kinds_never_fired': sorted(k for k, v in faults.items()
                                          if v == 0),
        'fault_free_runs': agg['fault_free_runs'],
        'fault_injecting_runs': agg['fault_runs'],
        'schedule_families': dict(sorted(agg['families'].items())),
        'probes': dict(sorted(probes.items())),
        'probes_at_zero': sorted(k for k, v in probes.items() if v == 0),
        'simulated': dict(sorted(agg['sim'].items())),
        'outcome_classes': dict(sorted(agg['classes'].items())),
        'components': chk.COMPONENTS,
        'known_findings_hit': known_lines,
        'fixed_findings': ['fixed: property=%s %s %s' % (
            pid, e.get('commit', '?'), e['what']) for e in fixed_f],
        'exhaustive': False,
    }
    if var is not None:
        cov['interpreter_variants'] = {
            'default': {'runs': out['done']},
            'strict (python -O, warnings raised as errors, TZ=%s)' %
            VARIANT_ENV['strict']['TZ']: {
                'runs': var.get('done', 0),
                'run_indexes': var.get('indexes'),
                'batch_digest': var.get('digest'),
                'outcome_classes': var.get('classes'),
                'violations': len(var.get('viol_lines', []))}}
        cov['faults_fired']['env_python_optimize_runs'] = var.get('done', 0)
        cov['faults_fired']['env_warnings_as_errors_runs'] = \
            var.get('done', 0)
        cov['faults_fired']['env_process_zone_not_utc_runs'] = \
            var.get('done', 0)
    if n_distinct >= MAX_DISTINCT:
        cov['distinct_note'] = 'distinct set capped at %d' % MAX_DISTINCT
    if tier_note:
        cov['tier_note'] = tier_note
    cov.update(chk.extra_coverage(agg))
    ev = {'property_id': pid, 'tier': tier, 'seed': batch_seed,
          'level': chk.LEVEL, 'coverage': cov,
          'assumptions': list(chk.ASSUMPTIONS), 'wall_s': round(wall, 2),
          'violations': len(viol_lines)}
    if core.variant() and args.variant_json:
        with open(args.variant_json, 'w') as f:
            json.dump({'digest': out['digest'], 'done': out['done'],
                       'errors': harness_errors, 'rc': rc,
                       'known_lines': known_lines, 'viol_lines': viol_lines,
                       'classes': cov['outcome_classes'],
                       'indexes': [args.start, args.start + out['done']]},
                      f, default=core._default)
    if not args.no_evidence and not core.variant():
        os.makedirs(os.path.join(VERIF, 'evidence'), exist_ok=True)
        with open(os.path.join(VERIF, 'evidence', pid + '.json'), 'w') as f:
            json.dump(ev, f, indent=1, sort_keys=True, default=core._default)
    print('done %s: runs=%d distinct=%d violations=%d known=%d wall=%.1fs '
          'digest=%s rc=%d' % (pid, out['done'], n_distinct, len(viol_lines),
                               len(known_lines), wall, out['digest'], rc))
    return rc
