"""Drivers that run the real inspectors / InspectWrapper over a simulated
stream, with per-chunk invariants and query plans."""
from sim import core
from sim.streams import SimSource, NoCloseSource


_FI = None


def fi():
    global _FI
    if _FI is None:
        core.import_sut()
        from oslo_utils.imageutils import format_inspector
        import logging
        lg = logging.getLogger('oslo_utils')
        lg.addHandler(logging.NullHandler())
        lg.propagate = False
        lg.setLevel(logging.CRITICAL + 1)
        _FI = format_inspector
        _install_hash_seam(format_inspector)
    return _FI


# Inspector objects are kept in sets by the SUT (and sets are built from sets:
# `non_raw`, the errored set).  Their default hash is their address, so the
# iteration order of those sets differs from process to process - the only
# address-dependent order in the SUT.  The seam: a hash derived from the
# run's salt and the inspector's NAME, installed on FileInspector unless the
# tree defines a hash of its own.  The salt is set at the start of a run,
# before any inspector exists, and every inspector of a run dies with it.
_HASH = {'salt': 0, 'cache': {}}


def _install_hash_seam(m):
    cls = m.FileInspector
    if '__hash__' in cls.__dict__ or '__eq__' in cls.__dict__:
        return

    def det_hash(self):
        key = (_HASH['salt'], self.NAME)
        h = _HASH['cache'].get(key)
        if h is None:
            h = core._h64('%d/%s' % key) >> 3
            _HASH['cache'][key] = h
        return h
    cls.__hash__ = det_hash


def set_hash_salt(obj):
    """Call at the start of a run (no inspector may be alive)."""
    _HASH['salt'] = core._h64(core.canon(obj)) & 0xffffffff
    if len(_HASH['cache']) > 4096:
        _HASH['cache'].clear()


QUERIES = ('format_match', 'complete', 'virtual_size', 'context_info', 'str',
           'safety')


def q_safety(insp):
    m = fi()
    try:
        insp.safety_check()
        return 'pass'
    except m.SafetyCheckFailed as e:
        return 'fail:' + ','.join(sorted(e.failures))
    except m.ImageFormatError:
        return 'refused'
    except Exception as e:
        return core.exc_name(e)


def q_attr(insp, name):
    try:
        v = getattr(insp, name)
        if name == 'format_match' or name == 'complete':
            return bool(v)
        return v
    except Exception as e:
        return core.exc_name(e)


def verdict(insp):
    s = q_safety(insp)
    return {'format_match': q_attr(insp, 'format_match'),
            'complete': q_attr(insp, 'complete'),
            'virtual_size': q_attr(insp, 'virtual_size'),
            'safety': s.split(':')[0], 'safety_detail': s}


def do_query(insp, which):
    if which == 'safety':
        return q_safety(insp)
    if which == 'str':
        return str(insp)
    if which == 'context_info':
        try:
            return dict(insp.context_info)
        except Exception as e:
            return core.exc_name(e)
    return q_attr(insp, which)


def regions_of(insp):
    """name -> region object; uses the public accessors, falls back to the
    private dict."""
    out = {}
    try:
        names = list(insp.context_info)
        for n in names:
            out[n] = insp.region(n)
    except Exception:
        out = dict(getattr(insp, '_capture_regions', {}))
    return out


class RegionWatch:
    """Invariant (C01c): whatever a region retains equals the stream's bytes
    at that region's offsets.  Only re-compares a region when its buffer
    changed."""

    def __init__(self, data):
        self.data = data
        self.last = {}
        self.compares = 0
        self.done = set()
        self.probes = {}

    def check(self, insp, tag):
        bad = []
        newly = 0
        for name, r in regions_of(insp).items():
            d = r.data
            key = (name, id(r))
            prev = self.last.get(key)
            if key not in self.done:
                try:
                    if r.complete:
                        self.done.add(key)
                        newly += 1
                except Exception:
                    pass
            if prev is not None and prev[0] is d and prev[1] == r.offset:
                continue
            if prev is not None and prev[1] != r.offset and prev[1] > 0 and \
                    len(d) == len(prev[0]):
                self.probes['end_region_slid'] = 1
            self.last[key] = (d, r.offset)
            self.compares += 1
            off = r.offset
            if not d:
                continue
            if off < 0 or self.data[off:off + len(d)] != d:
                bad.append({'region': name, 'offset': off, 'held': len(d),
                            'at': tag,
                            'first_diff': _first_diff(
                                self.data[off:off + len(d)] if off >= 0
                                else b'', d)})
        if newly >= 2:
            self.probes['several_regions_completed_in_one_chunk'] = 1
        return bad


def _first_diff(a, b):
    n = min(len(a), len(b))
    for i in range(n):
        if a[i] != b[i]:
            return i
    return n


def retained(insp):
    try:
        return sum(insp.context_info.values())
    except Exception:
        return sum(len(r.data) for r in regions_of(insp).values())


def new_inspector(name, tracing=False):
    """An inspector the way a caller may build it: FileInspector's public
    constructor takes tracing=True (debug trace of what it finds); nothing
    it concludes may depend on that."""
    m = fi()
    # tracing == 'debug': the deployment also has DEBUG logging switched on
    # for the module, so the trace is really rendered (C07-r9-2: a debug
    # dump that consumes what the parser needs afterwards)
    debug_logging(tracing == 'debug')
    if tracing:
        return m.ALL_FORMATS[name](tracing=True)
    return m.ALL_FORMATS[name]()


class _RenderingSink(__import__('logging').Handler):
    """Formats every record (as a real handler would) and drops it."""
    rendered = 0

    def emit(self, record):
        record.getMessage()
        _RenderingSink.rendered += 1


_SINK = _RenderingSink()


def debug_logging(on):
    """Switch DEBUG logging of the inspector module on or off (a fact of the
    deployment, like tracing=: no conclusion may depend on it)."""
    import logging
    lg = getattr(fi(), 'LOG', None)
    if lg is None or not hasattr(lg, 'setLevel'):
        return
    if on:
        if _SINK not in lg.handlers:
            lg.addHandler(_SINK)
        lg.propagate = False
        lg.setLevel(logging.DEBUG)
    elif _SINK in lg.handlers:
        lg.removeHandler(_SINK)
        lg.propagate = True
        lg.setLevel(logging.NOTSET)


def streams_mod():
    from sim import streams
    return streams


CHUNK_KINDS = [(None, 16), ('bytearray', 2), ('memoryview', 2),
               ('mv_reused', 3), ('ba_reused', 2)]


def drive_bare(name, data, sizes, qplan=None, watch_regions=True,
               mem_bound=None, log=None, feed_after_error=False, kind=None,
               end=None, tracing=False):
    """Feed one bare inspector.  qplan: {chunk_index: [query names]}.
    Returns dict(verdict, error, region_bad, max_retained, insp)."""
    m = fi()
    insp = new_inspector(name, tracing)
    pos = 0
    err = None
    rw = RegionWatch(data) if watch_regions else None
    bad = []
    mem_bad = []
    maxret = 0
    qres = []
    maker = streams_mod().ChunkMaker(kind, sizes)
    for idx, n in enumerate(sizes):
        chunk = maker.make(data[pos:pos + n])
        pos += n
        if err is None or feed_after_error:
            # feed_after_error: a caller that catches what eat_chunk raises
            # and keeps presenting the stream
            try:
                insp.eat_chunk(chunk)
            except Exception as e:
                if err is None:
                    err = [idx, type(e).__name__]
        if rw is not None and len(bad) < 3:
            bad.extend(rw.check(insp, idx))
        if mem_bound is not None:
            r = retained(insp)
            if r > maxret:
                maxret = r
            if r > mem_bound and len(mem_bad) < 3:
                mem_bad.append({'chunk': idx, 'pos': pos, 'retained': r})
                # the bound is broken: feeding on only costs time (an
                # unbounded buffer makes every further chunk slower)
                break
        if qplan:
            qs = qplan.get(idx)
            if qs:
                for q in qs:
                    res = do_query(insp, q)
                    qres.append((idx, q, res))
        elif err is not None and rw is None and not feed_after_error:
            # a failed inspector is not fed again: nothing can change any more
            break
    # the producer's buffer (if it reuses one) is no longer the stream
    maker.scrub()
    # how the stream is ended: finish() once, twice, or after one more empty
    # chunk - the verdict is about the bytes, not about the ceremony
    if end == 'empty_then_finish' and err is None:
        try:
            insp.eat_chunk(b'')
        except Exception as e:
            err = ['end', type(e).__name__]
    insp.finish()
    if end == 'finish_twice':
        insp.finish()
    if rw is not None and len(bad) < 3:
        bad.extend(rw.check(insp, 'finish'))
    if mem_bound is not None:
        r = retained(insp)
        maxret = max(maxret, r)
        if r > mem_bound:
            mem_bad.append({'chunk': 'finish', 'pos': pos, 'retained': r})
    v = verdict(insp)
    if log is not None:
        log.add('bare', name, err, _vt(v))
    return {'verdict': v, 'error': err, 'region_bad': bad,
            'max_retained': maxret, 'mem_bad': mem_bad, 'insp': insp,
            'qres': qres, 'probes': dict(rw.probes) if rw else {}}


def _vt(v):
    return [v['format_match'], v['complete'], v['virtual_size'], v['safety']]


class OrderedSet(set):
    """The wrapper's inspector set with a seed-chosen iteration order (the
    shipped order depends on object addresses)."""

    def set_order(self, order):
        self._order = list(order)

    def __iter__(self):
        return iter(self._order)


def _is_inspector(x):
    return isinstance(x, fi().FileInspector)


def _unwrap(elem):
    """An element of the wrapper's inspector collection: the inspector
    itself, or a small record that holds one."""
    if _is_inspector(elem):
        return elem
    try:
        vals = list(vars(elem).values())
    except TypeError:
        vals = []
    for cls in type(elem).__mro__:
        slots = cls.__dict__.get('__slots__', ())
        for sl in ((slots,) if isinstance(slots, str) else slots):
            try:
                vals.append(getattr(elem, sl))
            except AttributeError:
                pass
    for v in vals:
        if _is_inspector(v):
            return v
    if isinstance(elem, (tuple, list)):
        for v in elem:
            if _is_inspector(v):
                return v
    return None


def find_inspector_container(wrapper):
    """(attribute name, container) of the collection in which the wrapper
    keeps its inspectors - whatever it is called and whatever it is (set,
    list, tuple, dict of name -> inspector, collection of records)."""
    best = None
    try:
        items = list(vars(wrapper).items())
    except TypeError:
        return None
    for name, val in items:
        if isinstance(val, dict):
            elems = list(val.values())
        elif isinstance(val, (set, frozenset, list, tuple)):
            elems = list(set.__iter__(val) if isinstance(val, OrderedSet)
                         else val)
        else:
            continue
        if elems and all(_unwrap(e) is not None for e in elems):
            if best is None or len(elems) > len(best[2]) or \
                    name == '_inspectors':
                best = (name, val, elems)
    return best


def order_inspectors(wrapper, perm_rng_or_list):
    """Give the wrapper's inspector collection a seed-chosen iteration
    order. Returns list of names in iteration order, or None when the seam is
    unavailable (then the shipped order is used)."""
    found = find_inspector_container(wrapper)
    if found is None:
        return None
    attr, s, elems = found
    if not isinstance(s, (set, frozenset)):
        # list / tuple / dict: reorder in the same kind of container
        key = lambda e: _unwrap(e).NAME     # noqa: E731
        elems = sorted(elems, key=key)
        if isinstance(perm_rng_or_list, list):
            pos = {n: k for k, n in enumerate(perm_rng_or_list)}
            elems.sort(key=lambda e: pos.get(key(e), len(pos)))
        else:
            perm_rng_or_list.shuffle(elems)
        try:
            if isinstance(s, dict):
                keys = {id(v): k for k, v in s.items()}
                new = {keys[id(e)]: e for e in elems}
                s.clear()
                s.update(new)
            elif isinstance(s, list):
                s[:] = elems
            else:
                setattr(wrapper, attr, tuple(elems))
        except Exception:
            return None
        return [key(e) for e in elems]
    nm = lambda i: _unwrap(i).NAME      # noqa: E731
    items = sorted(set.__iter__(s) if isinstance(s, OrderedSet) else s,
                   key=nm)
    if isinstance(perm_rng_or_list, list):
        byname = {nm(i): i for i in items}
        want = [n for n in perm_rng_or_list if n in byname]
        rest = [nm(i) for i in items if nm(i) not in want]
        order = [byname[n] for n in want + rest]
    else:
        order = items[:]
        perm_rng_or_list.shuffle(order)
    os_ = OrderedSet(order)
    os_.set_order(order)
    setattr(wrapper, attr, os_)
    return [nm(i) for i in order]


def wrapper_inspectors(wrapper):
    found = find_inspector_container(wrapper)
    if found is None:
        return {}
    out = {}
    for e in found[2]:
        i = _unwrap(e)
        out[i.NAME] = i
    return out


def w_format(w):
    m = fi()
    try:
        f = w.format
        return None if f is None else str(f)
    except m.ImageFormatError:
        return 'ImageFormatError'
    except Exception as e:
        return core.exc_name(e)


def w_formats(w):
    m = fi()
    try:
        f = w.formats
        return None if f is None else sorted(str(x) for x in f)
    except m.ImageFormatError:
        return 'ImageFormatError'
    except Exception as e:
        return core.exc_name(e)


SPOILS = ('clear', 'reverse', 'pop', 'append')


def spoil_formats(w, how):
    """A caller that edits the list `formats` handed it (filters it, sorts
    it, pops from it): the list is the caller's, the wrapper's next answer
    must not depend on it."""
    try:
        f = w.formats
    except Exception:
        return False
    if not isinstance(f, list):
        return False
    try:
        if how == 'clear':
            del f[:]
        elif how == 'reverse':
            f.reverse()
        elif how == 'pop':
            if f:
                f.pop()
        else:
            f.append(f[0] if f else None)
    except Exception:
        return False
    return True


def mutate_collection(c, how, names):
    """The caller goes on using the collection it passed as allowed_formats
    (one list edited between uploads)."""
    try:
        if how == 'clear':
            c.clear()
        elif isinstance(c, list):
            c.extend(n for n in names if n not in c)
        elif isinstance(c, set):
            c.update(names)
        else:
            return False
    except Exception:
        return False
    return True


def ask_size(ask, req):
    """How much the reader asks for when the source will return `req` bytes
    (short reads: asking for more than comes back is legal for any
    file-like source)."""
    if ask == 'plus1':
        return req + 1
    if ask == 'big':
        return max(req, 65536)
    if ask == 'double':
        return req * 2 + 3
    return req


ASK_MODES = [(None, 5), ('plus1', 1), ('big', 2), ('double', 1)]


def drive_wrapper(data, sizes, personality='iter', order=None, allowed=None,
                  expected=None, wq=None, watch_regions=True, has_close=True,
                  ask=None, kind=None, eof_read=True):
    """Read all of data through an InspectWrapper. wq: set of chunk indices
    after which wrapper.format/formats are sampled.
    Returns dict(per (name -> verdict), format, formats, samples, error)."""
    m = fi()
    cls = SimSource if has_close else NoCloseSource
    if personality == 'file':
        plan = [s for s in sizes if s > 0]
    else:
        plan = list(sizes)
    src = cls(data, plan, kind=kind)
    w = m.InspectWrapper(src, expected_format=expected,
                         allowed_formats=allowed)
    names = order_inspectors(w, order) if order is not None else None
    rws = {}
    bad = []
    samples = []
    error = None
    got = []
    idx = 0
    try:
        while True:
            if personality == 'file':
                if not eof_read and idx >= len(plan):
                    # the reader knows the length and never makes the read
                    # that would return b''
                    break
                req = plan[idx] if idx < len(plan) else 4096
                chunk = w.read(ask_size(ask, req if req > 0 else 1))
                if not chunk:
                    break
            else:
                try:
                    chunk = next(w)
                except StopIteration:
                    break
            # (a copy: the producer may reuse its buffer for the next chunk)
            got.append(bytes(chunk))
            if watch_regions and len(bad) < 3:
                for n, insp in wrapper_inspectors(w).items():
                    rw = rws.get(n)
                    if rw is None:
                        rw = rws[n] = RegionWatch(data)
                    for b in rw.check(insp, idx):
                        b['inspector'] = n
                        bad.append(b)
            if wq and idx in wq:
                samples.append((idx, w_format(w), w_formats(w)))
                qs = wq[idx] if isinstance(wq, dict) else ()
                for n, insp in sorted(wrapper_inspectors(w).items()):
                    for q in qs:
                        do_query(insp, q)
            idx += 1
    except Exception as e:
        error = [idx, type(e).__name__]
    try:
        w.close()
    except Exception as e:
        error = error or ['close', type(e).__name__]
    # the wrapper is asked first, through its public queries: a wrapper may
    # settle its inspectors (finish()) lazily, on the first question after
    # the end of the stream
    fmt_after, fmts_after = w_format(w), w_formats(w)
    per = {}
    for n, insp in sorted(wrapper_inspectors(w).items()):
        if watch_regions and len(bad) < 3:
            rw = rws.get(n) or RegionWatch(data)
            for b in rw.check(insp, 'finish'):
                b['inspector'] = n
                bad.append(b)
        per[n] = verdict(insp)
    return {'per': per, 'format': fmt_after, 'formats': fmts_after,
            'samples': samples, 'error': error, 'region_bad': bad,
            'order': names, 'got': got, 'src': src, 'wrapper': w}


# ------------------------------------------------------------------ knobs

_KNOBS = {}


def size_knobs(lo=64 * 1024, hi=32 * 1024 * 1024):
    """Size-like integer constants of the module under test (module level
    and class level), e.g. VMDKInspector.DESC_MAX_SIZE.  Stream lengths and
    chunk sizes are generated around them ("randomise the tuning knobs"), so
    that a path which only starts beyond some built-in limit is entered
    whatever the limit is called or set to.  Sorted; always contains 1 MiB
    and 8 MiB."""
    key = (lo, hi)
    if key in _KNOBS:
        return _KNOBS[key]
    m = fi()
    vals = {1 << 20, 8 << 20}
    objs = [m] + [v for v in vars(m).values() if isinstance(v, type) and
                  getattr(v, '__module__', None) == m.__name__]
    for o in objs:
        for k, v in vars(o).items():
            if isinstance(v, int) and not isinstance(v, bool) and \
                    lo <= v <= hi:
                vals.add(v)
    _KNOBS[key] = sorted(vals)
    return _KNOBS[key]


# ------------------------------------------------------ argument shapes

import enum as _enum

DiskFormat = _enum.Enum('DiskFormat', {n.upper(): n for n in (
    'raw', 'qcow2', 'vhd', 'vhdx', 'vmdk', 'vdi', 'qed', 'iso', 'gpt',
    'luks')}, type=str)


class LabelStr(str):
    """A str subclass whose str()/repr() differ from its value (what an
    i18n or logging helper hands around)."""

    def __str__(self):
        return 'Label<%s>' % str.__str__(self)

    __repr__ = __str__


NAME_STYLES = (None, 'enum', 'strsub')
COLL_STYLES = (None, 'tuple', 'set', 'frozenset', 'dictkeys')


def name_arg(name, style):
    """A format name as callers hand it in: a plain str, a member of a
    (str, Enum) class, or another str subclass - all equal to the name."""
    if name is None or not style:
        return name
    if style == 'enum':
        try:
            return DiskFormat(name)
        except ValueError:
            return LabelStr(name)
    return LabelStr(name)


def coll_arg(names, style, name_style=None):
    if names is None:
        return None
    items = [name_arg(n, name_style) for n in names]
    if style == 'tuple':
        return tuple(items)
    if style == 'set':
        return set(items)
    if style == 'frozenset':
        return frozenset(items)
    if style == 'dictkeys':
        return dict.fromkeys(items).keys()
    return items


# ------------------------------------------------------- images on disk

def image_on_disk(data, tag='img'):
    """Write `data` to a scratch file and return its path.  Path-taking entry
    points (detect_file_format, from_file, the CLI) are handed a path that
    really holds the content: the `format_inspector.open` seam then adds
    short reads and read errors when the tree under test opens files through
    it, and a tree that opens them some other way (os.open, io.FileIO,
    pathlib) simply reads the file - the fault plan is then not in effect,
    which the caller can tell from the seam not having been used."""
    import os as _os
    path = _os.path.join(core.scratch_dir('images'),
                         '%s-%d' % (tag, _os.getpid()))
    with open(path, 'wb') as fh:
        fh.write(data)
    return path

