"""Trait-based image generation for C02 with a reference meaning taken from the
property statement (not from the code): every generated image is labelled

  reject  - carries at least one unsafe trait of the statement's list
  accept  - canonical clean image of a non-QED format
  none    - everything else (nothing is asserted about acceptance)

together with the name of the registered check the trait belongs to when that
is unambiguous.
"""
from models import gen as G
from sim.core import weighted

KI = 1024

QCOW_KNOWN_SAFE_BITS = (0, 1, 3)      # dirty, corrupt, compression type
QCOW_DATAFILE_BIT = 2


def t_qcow2(rng):
    p = {'total': rng.choice((512, 600, 1024, 4096)),
         'size': G.interesting_size(rng), 'fill': rng.choice(('zero', 'inc')),
         'hdr_rand': rng.randrange(1 << 30)}
    reasons = []
    hint = None
    kind = weighted(rng, [('clean', 3), ('version', 2), ('backing', 2),
                          ('bit', 4), ('bits', 2), ('datafile', 1),
                          ('combo', 1)])
    p['version'] = rng.choice((2, 3, 3))
    p['features'] = 0
    if kind == 'clean':
        if p['version'] == 3:
            f = 0
            for b in QCOW_KNOWN_SAFE_BITS:
                if rng.random() < 0.3:
                    f |= 1 << b
            p['features'] = f
    if kind in ('version', 'combo'):
        p['version'] = rng.choice((0, 1, 4, 5, 1 << 31, (1 << 32) - 1, 6,
                                   0x02000000, 0x03000000, 258, 259))
        reasons.append('version')
        hint = 'unknown_features'
    if kind in ('backing', 'combo'):
        p['bf_offset'] = rng.choice((1, 104, 512, 1 << 32, 1 << 63,
                                     (1 << 64) - 1, 0x100000000000000,
                                     rng.randrange(1, 1 << 64)))
        p['bf_size'] = rng.choice((0, 10, 1023))
        reasons.append('backing_file')
        hint = 'backing_file' if hint is None else hint
    if kind == 'bit':
        b = rng.randrange(64)
        p['version'] = 3
        p['features'] = 1 << b
        if b == QCOW_DATAFILE_BIT:
            reasons.append('data_file')
            hint = 'data_file'
        elif b >= 4:
            reasons.append('unknown_bit_%d' % b)
            hint = 'unknown_features'
    if kind == 'bits':
        p['version'] = 3
        f = rng.getrandbits(64) & rng.getrandbits(64)
        if rng.random() < 0.3:
            f &= 0xff
        p['features'] = f
        if f & (1 << QCOW_DATAFILE_BIT):
            reasons.append('data_file')
        if f >> 4:
            reasons.append('unknown_bits')
            hint = 'unknown_features'
    if kind == 'datafile':
        p['features'] = (1 << QCOW_DATAFILE_BIT) | (
            1 if rng.random() < 0.5 else 0)
        if p['version'] == 3:
            reasons.append('data_file')
            hint = 'data_file'
    if reasons:
        if p['version'] == 2 and all(r in ('data_file',) for r in reasons):
            label = 'none'
        else:
            label = 'reject'
        if len(reasons) > 1:
            hint = None
    else:
        if p['version'] == 2 and p['features']:
            label = 'none'      # v2 has no feature field: bytes 72.. undefined
        else:
            label = 'accept'
    return {'layout': 'qcow2', 'p': p}, label, reasons, hint


CREATE_OK = ('monolithicSparse', 'streamOptimized')
CREATE_BAD = ('monolithicFlat', 'vmfs', 'twoGbMaxExtentSparse',
              'twoGbMaxExtentFlat', 'fullDevice', 'vmfsSparse', 'custom',
              'monolithicSparse2', 'monolithicSpars', 'xmonolithicSparse',
              'streamOptimized ', ' monolithicSparse', '', 'x' * 70,
              'monolithicSparse;vmfs')

LINE_OK = ['# a comment', '', 'ddb.adapterType = "ide"', 'ddb.uuid = "60 00"',
           'version=1', 'CID=12345678', 'parentFileNameHint="x"',
           'RW 2048 SPARSE "disk.vmdk"', 'RDONLY 100 SPARSE "d.vmdk"',
           'NOACCESS 5 SPARSE "e.vmdk"']
LINE_BAD_UNRECOGNISED = ['hello world', 'FOO 123 SPARSE "disk.vmdk"',
                         'read me = 1', 'RWX 2048 SPARSE "disk.vmdk"',
                         'change tracking "x"', '"quoted"',
                         'rw2048 sparse "d.vmdk"']
EXTENT_PATH = ['RW 2048 FLAT "/etc/passwd" 0',
               'RW 2048 SPARSE "../../secret.vmdk"',
               'RDONLY 2048 FLAT "/dev/sda" 0',
               'NOACCESS 4 SPARSE "a/b.vmdk"',
               'RW 100 VMFS "/vmfs/volumes/x-flat.vmdk"']


NAME_CHARS = 'abcXYZ019._-#~@%+,;:!$&()[]{}^= \''


def extent_path_line(rng):
    """An extent line whose file name is a path; the name may hold any
    printable character a file name can."""
    if rng.random() < 0.4:
        return rng.choice(EXTENT_PATH)

    def seg():
        return ''.join(rng.choice(NAME_CHARS)
                       for _ in range(rng.randint(1, 8))).strip() or 'd'
    parts = [seg() for _ in range(rng.randint(1, 3))]
    lead = rng.choice(('', '', '/', '../', './', '#/', 'a#b/'))
    name = lead + '/'.join(parts)
    if '/' not in name:
        name = name + '/' + seg()
    typ = rng.choice(('SPARSE', 'FLAT', 'VMFS', 'ZERO'))
    line = '%s %d %s "%s"' % (rng.choice(('RW', 'RDONLY', 'NOACCESS')),
                              rng.randrange(1, 1 << 30), typ, name)
    if typ == 'FLAT':
        line += ' %d' % rng.randrange(0, 4096)
    return line


def clean_desc(rng, create=None):
    create = create or rng.choice(CREATE_OK)
    lines = ['# Disk DescriptorFile', 'version=1',
             'CID=%08x' % rng.randrange(1 << 32), 'parentCID=ffffffff',
             'createType="%s"' % create, '', '# Extent description',
             'RW %d SPARSE "disk.vmdk"' % rng.randrange(1, 1 << 30), '',
             '# The Disk Data Base', '#DDB', '',
             'ddb.virtualHWVersion = "4"',
             'ddb.geometry.cylinders = "%d"' % rng.randrange(1, 9999),
             'ddb.adapterType = "ide"']
    return lines


def desc_traits(rng, lines):
    """Perturb a clean descriptor; returns (lines, reasons)."""
    reasons = []
    kind = weighted(rng, [('clean', 3), ('create', 3), ('nocreate', 1),
                          ('unrecognised', 2), ('noextent', 2), ('path', 3),
                          ('extra_ok', 2), ('late_path', 1)])
    lines = list(lines)
    ci = [i for i, l in enumerate(lines) if l.startswith('createType')][0]
    ei = [i for i, l in enumerate(lines) if l.startswith('RW ')][0]
    if kind == 'create':
        lines[ci] = 'createType="%s"' % rng.choice(CREATE_BAD)
        reasons.append('create_type')
    elif kind == 'nocreate':
        del lines[ci]
        reasons.append('create_type_missing')
    elif kind == 'unrecognised':
        lines.insert(rng.randint(0, len(lines)),
                     rng.choice(LINE_BAD_UNRECOGNISED))
        reasons.append('unrecognised_line')
    elif kind == 'noextent':
        del lines[ei]
        reasons.append('no_extent')
    elif kind == 'path':
        if rng.random() < 0.5:
            lines[ei] = extent_path_line(rng)
        else:
            lines.insert(ei + 1, extent_path_line(rng))
        reasons.append('extent_path')
    elif kind == 'late_path':
        lines.append(extent_path_line(rng))
        reasons.append('extent_path')
    elif kind == 'extra_ok':
        for _ in range(rng.randint(1, 4)):
            lines.insert(rng.randint(0, len(lines)), rng.choice(LINE_OK))
    return lines, reasons, kind


FOOTER_PERTURB = [
    ({'magic': b'KDMX'.hex()}, 'sig'), ({'version': 2}, 'ver'),
    ({'desc_sec': 2}, 'desc'), ({'desc_num': 7}, 'desc'),
    ({'f_gd_offset': 0xffffffffffffffff}, 'gd'),
    ({'m1_size': 1}, 'marker'), ({'m1_type': 0}, 'marker'),
    ({'m1_type': 1}, 'marker'), ({'m1_pad': 5}, 'marker'),
    ({'m3_val': 1}, 'eos'), ({'m3_size': 1}, 'eos'), ({'m3_type': 3}, 'eos'),
    ({'m3_pad': 9}, 'eos'),
]


def t_vmdk(rng):
    p = {'sectors': G.interesting_size(rng, 50), 'version': rng.choice((1, 1, 2, 3)),
         'desc_num': rng.choice((2, 3, 20)),
         'data_after': rng.choice((0, 512, 4096)),
         'fill': rng.choice(('zero', 'inc')),
         'grain': rng.choice((128, 16)), 'flags': rng.choice((3, 0x30001))}
    lines = clean_desc(rng)
    reasons = []
    hint = None
    kind = weighted(rng, [('desc', 8), ('misplaced', 2), ('missing', 2),
                          ('footer_clean', 2), ('footer_bad', 4)])
    canonical = True
    if kind == 'desc':
        lines, reasons, dk = desc_traits(rng, lines)
        if dk == 'extra_ok':
            canonical = False
        if reasons:
            hint = 'descriptor'
    elif kind == 'misplaced':
        p['desc_sec'] = rng.choice((0, 2, 3, 100, 1 << 40, (1 << 55) - 1))
        reasons.append('descriptor_misplaced')
    elif kind == 'missing':
        if rng.random() < 0.5:
            p['desc_num'] = 0
        else:
            lines = []
            p['desc_pad'] = 'zero'
        reasons.append('descriptor_missing')
        hint = 'descriptor'
    elif kind == 'footer_clean':
        p['footer'] = True
        p['data_after'] = rng.choice((512, 4096))
        if rng.random() < 0.08:
            p['desc_num'] = rng.choice((2047, 2048, 2049, 4096))
    elif kind == 'footer_bad':
        p['footer'] = True
        p['data_after'] = rng.choice((512, 4096))
        pert, _what = rng.choice(FOOTER_PERTURB)
        pert = dict(pert)
        if 'version' in pert:
            pert['version'] = p['version'] % 3 + 1
        if rng.random() < 0.12:
            # a descriptor at or beyond the 1 MiB - 1 capture limit
            p['desc_num'] = rng.choice((2047, 2048, 2049, 4096))
        if 'desc_num' in pert:
            # any footer descriptor size other than the header's, small,
            # around the capture limit, huge
            h = p['desc_num']
            pert['desc_num'] = rng.choice([
                x for x in (0, 1, 7, h - 1, h + 1, 2047, 2048, 2049, 4096,
                            h * 2, 1 << 32, (1 << 64) - 1)
                if x != h and x >= 0])
        if 'desc_sec' in pert:
            pert['desc_sec'] = rng.choice((0, 2, 3, 1 << 40, (1 << 64) - 1))
        p['footer_p'] = pert
        reasons.append('footer_contradicts:' + _what)
        hint = 'footer'
    p['desc_lines'] = lines
    c = rng.random()
    if c < 0.15:
        p['desc_nl'] = '\r\n'       # descriptors written on Windows
    elif c < 0.25:
        # trailing blanks on some lines
        p['desc_lines'] = [l + rng.choice(('', ' ', '  ')) if l else l
                           for l in lines]
    label = 'reject' if reasons else ('accept' if canonical else 'none')
    return {'layout': 'vmdk', 'p': p}, label, reasons, hint


def t_vmdk_text(rng):
    lines = clean_desc(rng)
    lines, reasons, dk = desc_traits(rng, lines)
    p = {'desc_lines': lines}
    if rng.random() < 0.4:
        # the classic fail-open shape: everything an early reader sees is
        # clean, the unsafe line comes late
        lines = clean_desc(rng)
        k = rng.randint(1, 3)
        bad = [rng.choice(EXTENT_PATH + LINE_BAD_UNRECOGNISED)
               for _ in range(k)]
        reasons = ['late_unsafe_line']
        dk = 'late'
        p = {'desc_lines': lines + bad, 'tail_lines': k,
             'pad_lines': rng.choice((1, 10, 60, 90, 120, 1500))}
    elif rng.random() < 0.5:
        # push the tail of the descriptor beyond typical first-chunk sizes
        p['pad_lines'] = rng.choice((1, 10, 90, 120))
        p['tail_lines'] = rng.choice((0, 1, 3, 8))
    # without a (usable) createType line a text file is not a VMDK at all
    label = 'reject' if reasons else 'none'
    if dk in ('create', 'nocreate'):
        ct = [l for l in lines if l.lower().startswith('createtype="')]
        if not ct or len(ct[0]) - len('createtype=""') >= 64:
            label = 'none'
    return {'layout': 'vmdk_text', 'p': p}, label, reasons, 'descriptor'


def t_qed(rng):
    return ({'layout': 'qed', 'p': {'total': rng.choice((512, 1024, 4096)),
                                    'fill': rng.choice(('zero', 'inc'))}},
            'reject', ['qed'], 'banned')


def t_luks(rng):
    v = weighted(rng, [(1, 4), (0, 1), (2, 2), (0xffff, 1), (256, 1),
                       (0x8001, 1), (3, 1), (257, 1)])
    total = rng.choice((592, 1024, 4096))
    p = {'version': v, 'total': total, 'payload': rng.choice((0, 1, 2)),
         'fill': rng.choice(('zero', 'inc'))}
    if v == 1:
        return {'layout': 'luks', 'p': p}, 'accept', [], None
    return {'layout': 'luks', 'p': p}, 'reject', ['luks_version'], 'version'


def t_gpt(rng):
    """4 slots x {empty, plain, 0xEE} x boot flag x protective CHS/LBA."""
    reasons = []
    slots = []
    kinds = [weighted(rng, [('empty', 5), ('plain', 3), ('ee', 2)])
             for _ in range(4)]
    if rng.random() < 0.35:
        kinds = ['ee', 'empty', 'empty', 'empty']
    for i, k in enumerate(kinds):
        if k == 'empty':
            if rng.random() < 0.12:
                # unused entry (type 0) that still carries a boot indicator
                bf = rng.choice((0x80, 0x80, 1, 0x7f, 0x81, 0xff, 0x40))
                slots.append([bf, 0, [0, 0, 0], 0, 0])
                if bf != 0x80:
                    reasons.append('boot_flag_on_unused_entry')
            else:
                slots.append(None)
            continue
        s = G.gen_slot(rng, 'ee' if k == 'ee' else 'plain')
        bf = weighted(rng, [(0, 5), (0x80, 2), ('bad', 1)])
        if bf == 'bad':
            s[0] = rng.choice((1, 0x7f, 0x81, 0xff, 0x40))
            reasons.append('boot_flag')
        else:
            s[0] = bf
        if k == 'ee':
            c = rng.random()
            if c < 0.15:
                if rng.random() < 0.6:
                    # one bit of the start CHS 00 02 00 flipped (the top
                    # two bits of the sector byte are cylinder bits 8-9)
                    chs = [0, 2, 0]
                    chs[rng.randrange(3)] ^= 1 << rng.randrange(8)
                    s[2] = chs
                else:
                    s[2] = rng.choice(([0, 1, 0], [0, 2, 1], [1, 2, 0],
                                       [0xff, 0xff, 0xff], [0, 0xc2, 0],
                                       [0, 0x42, 0]))
                reasons.append('protective_chs')
            elif c < 0.3:
                # start LBA other than 1: fixed picks and single flipped bits
                s[3] = rng.choice((0, 2, 63, 2048, 0xffffffff,
                                   1 ^ (1 << rng.randrange(32))))
                reasons.append('protective_lba')
        slots.append(s)
    nonempty = [i for i, s in enumerate(slots) if s is not None and s[1]]
    ee = [i for i, s in enumerate(slots) if s is not None and s[1] == 0xEE]
    if not nonempty:
        reasons.append('no_partition')
    if ee and nonempty != [0]:
        reasons.append('protective_misplaced_or_accompanied')
    p = {'slots': slots, 'total': rng.choice((512, 1024, 4096)),
         'fill': rng.choice(('zero', 'inc')),
         'boot_fill': rng.choice(('zero', 'rand:%d' % rng.randrange(99)))}
    if reasons:
        label = 'reject'
    else:
        # canonical: boot flag 0 on a protective entry
        canonical = all(s is None or s[1] != 0xEE or s[0] == 0 for s in slots)
        label = 'accept' if canonical else 'none'
    hint = 'mbr' if reasons else None
    return {'layout': 'gpt', 'p': p}, label, reasons, hint


def t_null(rng, layout):
    rec = G.gen_wellformed(rng, layout)
    p = rec['p']
    if layout == 'iso':
        p['ident'] = 'CD001'
        p['sys_fill'] = 'zero'
    if layout == 'vhdx':
        m_count = p['m_before'] + 1 + p['m_after']
        p['meta_offset'] = max(p['meta_offset'], 256 * KI)
        p['item_offset'] = max(p['item_offset'], 32 + 32 * m_count)
        p['fill'] = 'zero'
    if layout == 'raw':
        p['fill'] = rng.choice(('zero', 'rand:%d' % rng.randrange(1, 1 << 20)))
        p.pop('late_byte', None)
        p['total'] = max(1, p['total'])
    if layout in ('vhd', 'vdi'):
        p['total'] = max(512, p['total'])
        p['fill'] = 'zero'
    return rec, 'accept', [], None


DECOYS = {
    # signatures of OTHER formats planted in bytes the image's own format
    # does not look at: (offset, bytes, bytes needed in the stream)
    'gpt': (510, b'\x55\xaa', 512),
    'iso': (32769, b'CD001', 34816),
    'vdi': (0x40, b'\x7f\x10\xda\xbe', 512),
}
# which decoys a format tolerates (the bytes lie outside what it parses)
DECOY_OK = {'qed': ('gpt', 'iso', 'vdi'), 'qcow2': ('gpt', 'iso'),
            'luks': ('gpt', 'iso'), 'vmdk': ('iso',)}


def gen_traited(rng, layout=None):
    rec, label, reasons, hint = _gen_traited(rng, layout)
    lay = rec['layout']
    if label == 'reject' and lay in DECOY_OK and rng.random() < 0.12:
        # an unsafe image that ALSO carries other formats' signatures: going
        # through detection it must still never be accepted (refusing it as
        # ambiguous is fine)
        names = [d for d in DECOY_OK[lay] if rng.random() < 0.7] or \
            [DECOY_OK[lay][0]]
        need = max(DECOYS[d][2] for d in names)
        p = rec['p']
        if lay == 'vmdk':
            p['data_after'] = max(p.get('data_after', 0), need)
        else:
            p['total'] = max(p.get('total', 0), need + 512)
        rec['mut'] = sorted((rec.get('mut') or []) +
                            [[DECOYS[d][0], DECOYS[d][1].hex()]
                             for d in names])
        reasons = list(reasons) + ['with_decoy_signatures']
        hint = None
    return rec, label, reasons, hint


def _gen_traited(rng, layout=None):
    layout = layout or weighted(rng, [
        ('qcow2', 7), ('vmdk', 8), ('vmdk_text', 3), ('qed', 1), ('luks', 2),
        ('gpt', 5), ('vhd', 1), ('vhdx', 1), ('vdi', 1), ('iso', 1),
        ('raw', 1)])
    if layout == 'qcow2':
        return t_qcow2(rng)
    if layout == 'vmdk':
        return t_vmdk(rng)
    if layout == 'vmdk_text':
        return t_vmdk_text(rng)
    if layout == 'qed':
        return t_qed(rng)
    if layout == 'luks':
        return t_luks(rng)
    if layout == 'gpt':
        return t_gpt(rng)
    return t_null(rng, layout)
