"""Three-valued signature model for C03.

model(content)[fmt] in {'yes', 'no', 'maybe'}:
  yes   - the format's signature is present and the stream is long enough for
          the inspector's documented decision point
  no    - the signature bytes are absent (or can no longer arrive)
  maybe - the statement does not pin the answer down (signature present but
          the stream stops before the decision point; VMDK text-descriptor
          territory)
"""
import struct

from models import formats as F

KI = 1024
NONRAW = ('qcow2', 'qed', 'vhd', 'vhdx', 'vmdk', 'luks', 'vdi', 'gpt', 'iso')


def model(data, info=None):
    n = len(data)
    out = {}

    def sig_at0(sig, need):
        if data[:len(sig)] == sig:
            return 'yes' if n >= need else 'maybe'
        return 'no'
    out['qcow2'] = 'yes' if (n >= 512 and data[:4] == b'QFI\xfb') else 'no'
    out['qed'] = 'yes' if (n >= 512 and data[:4] == b'QED\x00') else 'no'
    out['vhd'] = sig_at0(b'conectix', 512)
    if data[:8] == b'vhdxfile':
        wf = bool(info and info.get('layout') == 'vhdx' and
                  not info.get('mutated') and not info.get('truncated') and
                  info.get('forward', True))
        out['vhdx'] = 'yes' if wf else 'maybe'
    else:
        out['vhdx'] = 'no'
    if data[:4] == b'KDMV':
        out['vmdk'] = 'yes' if n >= 64 else 'maybe'
    elif n >= 64 and F.is_texty_prefix(data):
        out['vmdk'] = 'maybe'
    else:
        out['vmdk'] = 'no'
    out['luks'] = sig_at0(b'LUKS\xba\xbe', 592)
    out['vdi'] = 'yes' if (n >= 512 and data[0x40:0x44] ==
                           struct.pack('<I', 0xbeda107f)) else 'no'
    fat = n >= 512 and data[0x10] == 2 and data[0x15] == 0xF8
    out['gpt'] = 'yes' if (n >= 512 and data[510:512] == b'\x55\xaa' and
                           not fat) else 'no'
    out['iso'] = 'yes' if (n >= 34 * KI and data[32 * KI + 1:32 * KI + 6] in
                           (b'CD001', b'NSR02', b'NSR03')) else 'no'
    # a signature that sits where the format keeps a trailing copy (VHD
    # footer, VMDK footer header) or that was planted near the end: the
    # statement ("signature is present in the content") does not pin the
    # answer down
    for name in (info or {}).get('tail_sigs') or ():
        if out.get(name) == 'no':
            out[name] = 'maybe'
    return out
