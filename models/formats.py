"""Layout models of the ten image formats.

These are written from the format specifications / the layout comments, not
from the inspectors' code paths: each builder turns a small JSON-friendly
parameter dict into bytes and an ``info`` dict that says what the image
*declares* (size, where the size field ends, structure boundaries, traits).
The info is the generator's own knowledge, so it cannot be fooled by chunking.

A content *recipe* is::

    {'layout': name, 'p': {...}, 'mut': [[offset, hex], ...],
     'trunc': n | None, 'ext': [kind, n] | None}

and ``build(recipe)`` is a pure function of it.
"""
import random
import struct
import uuid

KI = 1024
MI = 1024 * 1024

FORMATS = ('raw', 'qcow2', 'vhd', 'vhdx', 'vmdk', 'vdi', 'qed', 'iso', 'gpt',
           'luks')

VHDX_METAREGION = uuid.UUID('8B7CA206-4790-4B9A-B8FE-575F050F886E').bytes_le
VHDX_BAT = uuid.UUID('2DC27766-F623-4200-9D64-115E9BFD4A08').bytes_le
VHDX_VDS = uuid.UUID('2FA54224-CD1B-4876-B211-5DBED83BF4B8').bytes_le
VHDX_FILE_PARAMS = uuid.UUID(
    'CAA16737-FA36-4D43-B3B6-33F0AA44E76B').bytes_le
VHDX_LOGICAL_SECTOR = uuid.UUID(
    '8141BF1D-A96F-4709-BA47-F233A8FAAB5F').bytes_le


def fill(kind, n):
    """Deterministic filler bytes. kind: 'zero' | 'ff' | 'text' | 'rand:<int>'
    | 'inc' (distinct-ish byte values, good for offset mistakes)."""
    if n <= 0:
        return b''
    if kind == 'zero':
        return bytes(n)
    if kind == 'ff':
        return b'\xff' * n
    if kind == 'inc':
        unit = bytes(range(1, 252))
        return (unit * (n // len(unit) + 1))[:n]
    if kind == 'text':
        unit = b'the quick brown fox jumps over the lazy dog 0123456789\n'
        return (unit * (n // len(unit) + 1))[:n]
    if kind.startswith('rand:'):
        return random.Random(int(kind[5:])).randbytes(n)
    raise ValueError('fill kind %r' % (kind,))


def _put(buf, off, data):
    end = off + len(data)
    if end > len(buf):
        buf.extend(bytes(end - len(buf)))
    buf[off:end] = data


def _pget(p, key, default):
    v = p.get(key)
    return default if v is None else v


# ---------------------------------------------------------------- qcow2

def build_qcow2(p):
    version = _pget(p, 'version', 3)
    size = _pget(p, 'size', 1 << 30)
    total = max(_pget(p, 'total', 1024), 0)
    body = bytearray(fill(_pget(p, 'fill', 'zero'), total))
    hdr = bytearray(112)
    rest = p.get('hdr_rand')
    if rest is not None:
        # irrelevant header fields randomised: cluster bits, crypt, l1, ...
        r = random.Random(rest)
        hdr[20:24] = struct.pack('>I', r.randrange(9, 22))
        hdr[32:72] = r.randbytes(40)
        hdr[80:104] = r.randbytes(24)
    else:
        hdr[20:24] = struct.pack('>I', 16)
    hdr[0:4] = bytes.fromhex(_pget(p, 'magic', '514649fb'))
    hdr[4:8] = struct.pack('>I', version & 0xffffffff)
    hdr[8:16] = struct.pack('>Q', _pget(p, 'bf_offset', 0))
    hdr[16:20] = struct.pack('>I', _pget(p, 'bf_size', 0))
    hdr[24:32] = struct.pack('>Q', size)
    hdr[72:80] = struct.pack('>Q', _pget(p, 'features', 0))
    if rest is None:
        hdr[100:104] = struct.pack('>I', 104 if version >= 3 else 72)
    _put(body, 0, bytes(hdr))
    if len(body) > total:
        del body[total:]
    info = {'fmt': 'qcow2', 'declared': size, 'size_field': (24, 32),
            'carrier_end': 512,
            'boundaries': [4, 8, 16, 24, 32, 72, 80, 104, 512],
            'structured': [(0, 112)]}
    return bytes(body), info


# ---------------------------------------------------------------- qed

def build_qed(p):
    total = max(_pget(p, 'total', 1024), 0)
    body = bytearray(fill(_pget(p, 'fill', 'zero'), total))
    hdr = b'QED\x00' + struct.pack('<IIII', 65536, 4, 64, 0)
    _put(body, 0, hdr)
    del body[total:]
    return bytes(body), {'fmt': 'qed', 'declared': None,
                         'boundaries': [4, 512], 'structured': [(0, 20)]}


# ---------------------------------------------------------------- vhd

def build_vhd(p):
    size = _pget(p, 'size', 1 << 30)
    total = max(_pget(p, 'total', 1536), 0)
    body = bytearray(fill(_pget(p, 'fill', 'zero'), total))
    ft = bytearray(fill(_pget(p, 'hdr_fill', 'zero'), 512))
    ft[0:8] = b'conectix'
    ft[8:12] = struct.pack('>I', 2)
    ft[12:16] = struct.pack('>I', 0x00010000)
    ft[16:24] = struct.pack('>Q', 512)
    ca = p.get('creator')
    if ca:
        ft[28:32] = ca.encode('latin-1')[:4].ljust(4, b'\x00')
    ft[40:48] = struct.pack('>Q', size)        # original size
    ft[48:56] = struct.pack('>Q', _pget(p, 'cur_size', size))
    ft[60:64] = struct.pack('>I', 3)
    _put(body, 0, bytes(ft))
    del body[total:]
    return bytes(body), {'fmt': 'vhd', 'declared': size,
                         'size_field': (40, 48), 'carrier_end': 512,
                         'boundaries': [8, 40, 48, 56, 512],
                         'structured': [(0, 64)]}


# ---------------------------------------------------------------- vhdx

def build_vhdx(p):
    """VHDX: ident at 0, region table at 192 KiB, metadata region and the
    virtual-disk-size item wherever the tables point."""
    size = _pget(p, 'size', 1 << 30)
    meta_offset = _pget(p, 'meta_offset', 256 * KI)
    r_before = _pget(p, 'r_before', 1)       # region entries before metadata
    r_after = _pget(p, 'r_after', 0)
    m_before = _pget(p, 'm_before', 1)       # metadata entries before VDS
    m_after = _pget(p, 'm_after', 1)
    item_offset = _pget(p, 'item_offset', 64 * KI)
    item_length = _pget(p, 'item_length', 8)
    tail = _pget(p, 'tail', 512)
    bg = _pget(p, 'fill', 'zero')

    # metadata region
    m_count = _pget(p, 'm_count', m_before + 1 + m_after)
    mt = bytearray()
    mt += bytes.fromhex(_pget(p, 'meta_sig', b'metadata'.hex()))
    mt += struct.pack('<HH', 0, m_count & 0xffff)
    mt += bytes(20)
    pad_guid_rng = random.Random(_pget(p, 'guid_seed', 7))

    def pad_guid():
        while True:
            g = pad_guid_rng.randbytes(16)
            if g not in (VHDX_METAREGION, VHDX_VDS):
                return g
    for _i in range(m_before):
        mt += pad_guid() + struct.pack('<IIII', 64 * KI + 4096, 4, 0, 0)
    if not p.get('no_vds'):
        mt += VHDX_VDS + struct.pack('<IIII', item_offset & 0xffffffff,
                                     item_length & 0xffffffff,
                                     _pget(p, 'item_flags', 0x6), 0)
    dup = _pget(p, 'user_dup', 0) if m_after else 0
    for _i in range(m_after):
        if _i >= m_after - dup:
            # a USER metadata item (IsUser, bit 0) that reuses the virtual
            # disk size GUID - a separate namespace in MS-VHDX - listed after
            # the system item and pointing at unrelated bytes
            mt += VHDX_VDS + struct.pack('<IIII', 64 * KI + 8192, 8, 0x1, 0)
        else:
            mt += pad_guid() + struct.pack('<IIII', 64 * KI + 8192, 4, 0, 0)

    # region table
    r_count = _pget(p, 'r_count', r_before + 1 + r_after)
    rt = bytearray()
    rt += bytes.fromhex(_pget(p, 'regi_sig', b'regi'.hex()))
    rt += struct.pack('<III', 0, r_count & 0xffffffff, 0)
    for i in range(r_before):
        g = VHDX_BAT if i == 0 else pad_guid()
        rt += g + struct.pack('<QII', 3 * MI, MI, 1)
    if not p.get('no_metaregion'):
        rt += VHDX_METAREGION + struct.pack(
            '<QII', meta_offset, _pget(p, 'meta_len', MI), 1)
    for _i in range(r_after):
        rt += pad_guid() + struct.pack('<QII', 5 * MI, MI, 0)
    if len(rt) > 64 * KI:
        del rt[64 * KI:]

    vds_at = meta_offset + item_offset
    total = _pget(p, 'total', None)
    natural = max(256 * KI, meta_offset + len(mt), vds_at + 8) + tail
    if total is None:
        total = natural
    body = bytearray(fill(bg, total))
    ident = b'vhdxfile' + 'oslo sim'.encode('utf-16-le')
    _put(body, 0, bytes.fromhex(_pget(p, 'ident', ident.hex())))
    # two headers at 64K and 128K (not inspected; present for realism)
    if total >= 128 * KI + 4:
        _put(body, 64 * KI, b'head')
        _put(body, 128 * KI, b'head')
    _put(body, 192 * KI, bytes(rt))
    _put(body, meta_offset, bytes(mt))
    if not p.get('no_vds'):
        _put(body, vds_at, struct.pack('<Q', size))
    if len(body) > total:
        del body[total:]
    rt_entries_end = 192 * KI + 16 + 32 * r_count
    mt_entries_end = meta_offset + 32 + 32 * m_count
    b = [8, 32, 64 * KI, 128 * KI, 192 * KI, 192 * KI + 16,
         192 * KI + 16 + 32 * r_before, 192 * KI + 16 + 32 * (r_before + 1),
         rt_entries_end, 256 * KI, meta_offset, meta_offset + 12,
         meta_offset + 32, meta_offset + 32 + 32 * m_before,
         meta_offset + 32 + 32 * (m_before + 1), mt_entries_end,
         meta_offset + 64 * KI, vds_at, vds_at + 8]
    info = {'fmt': 'vhdx', 'declared': size, 'size_field': (vds_at, vds_at + 8),
            'carrier_end': vds_at + max(item_length, 0),
            'boundaries': sorted(set(x for x in b if 0 < x <= total)),
            'structured': [(0, 32), (192 * KI, rt_entries_end),
                           (meta_offset, mt_entries_end), (vds_at, vds_at + 8)],
            'forward': (meta_offset >= 256 * KI and
                        item_offset >= 32 + 32 * m_count)}
    return bytes(body), info


# ---------------------------------------------------------------- vmdk

DEFAULT_DESC_LINES = [
    '# Disk DescriptorFile',
    'version=1',
    'CID=fffffffe',
    'parentCID=ffffffff',
    'createType="monolithicSparse"',
    '',
    '# Extent description',
    'RW 2048 SPARSE "disk.vmdk"',
    '',
    '# The Disk Data Base',
    '#DDB',
    '',
    'ddb.virtualHWVersion = "4"',
    'ddb.geometry.cylinders = "2"',
    'ddb.adapterType = "ide"',
]


def descriptor_text(p):
    lines = p.get('desc_lines')
    if lines is None:
        lines = DEFAULT_DESC_LINES
    nl = _pget(p, 'desc_nl', '\n')
    return (nl.join(lines) + nl).encode('latin-1')


def sparse_header(p, gd_offset=None):
    hdr = bytearray(512)
    hdr[0:4] = bytes.fromhex(_pget(p, 'magic', b'KDMV'.hex()))
    struct.pack_into('<II', hdr, 4, _pget(p, 'version', 1) & 0xffffffff,
                     _pget(p, 'flags', 3))
    struct.pack_into('<QQQQ', hdr, 12, _pget(p, 'sectors', 2048),
                     _pget(p, 'grain', 128), _pget(p, 'desc_sec', 1),
                     _pget(p, 'desc_num', 20))
    struct.pack_into('<I', hdr, 44, 512)
    struct.pack_into('<Q', hdr, 48, _pget(p, 'rgd_offset', 21))
    if gd_offset is None:
        gd_offset = _pget(p, 'gd_offset', 26)
    struct.pack_into('<Q', hdr, 56, gd_offset)
    struct.pack_into('<Q', hdr, 64, 128)
    hdr[72] = 0
    hdr[73:77] = b'\n \r\n'
    # compressAlgorithm (u16 at 77) and the pad bytes up to 512: nothing the
    # properties speak of, so any value may stand there
    tail = p.get('hdr_tail')
    if tail:
        hdr[77:512] = fill(tail, 435)
    return hdr


def build_vmdk(p):
    """Hosted sparse extent: 512-byte header, embedded descriptor at sector
    desc_sec for desc_num sectors (NUL padded), optional footer triple."""
    sectors = _pget(p, 'sectors', 2048)
    desc_sec = _pget(p, 'desc_sec', 1)
    desc_num = _pget(p, 'desc_num', 20)
    footer = bool(p.get('footer'))
    gd = 0xffffffffffffffff if footer else None
    hdr = sparse_header(p, gd)
    text = descriptor_text(p)
    desc_room = min(desc_num, 4096) * 512
    data_after = _pget(p, 'data_after', 1024)
    desc_at = min(desc_sec, 8192) * 512
    total = _pget(p, 'total', None)
    natural = max(512, desc_at + desc_room) + data_after + (1536 if footer else 0)
    if total is None:
        total = natural
    body = bytearray(fill(_pget(p, 'fill', 'zero'), total))
    _put(body, 0, bytes(hdr))
    if desc_num > 0:
        room = bytearray(fill(_pget(p, 'desc_pad', 'zero'), desc_room))
        t = text[:desc_room] if not p.get('desc_overflow') else text
        room[0:len(t)] = t
        # a header that claims a descriptor inside the header sector does
        # not get the header overwritten: the text stays at sector 1
        _put(body, desc_at if desc_at >= 512 else 512,
             bytes(room[:max(desc_room, len(t))]))
    if len(body) > total:
        del body[total:]
    b = [4, 8, 12, 20, 28, 36, 44, 56, 64, 512, desc_at, desc_at + len(text),
         desc_at + desc_room]
    if footer:
        fp = dict(p)
        fp.update(p.get('footer_p') or {})
        fhdr = sparse_header(fp, _pget(fp, 'f_gd_offset', 26))
        m1 = bytearray(512)
        struct.pack_into('<QII', m1, 0, _pget(fp, 'm1_val', 1),
                         _pget(fp, 'm1_size', 0), _pget(fp, 'm1_type', 3))
        if fp.get('m1_pad'):
            m1[16 + fp['m1_pad'] % 496] = 1
        m3 = bytearray(512)
        struct.pack_into('<QII', m3, 0, _pget(fp, 'm3_val', 0),
                         _pget(fp, 'm3_size', 0), _pget(fp, 'm3_type', 0))
        if fp.get('m3_pad'):
            m3[16 + fp['m3_pad'] % 496] = 1
        ft = bytes(m1) + bytes(fhdr) + bytes(m3)
        if total >= 1536:
            body[total - 1536:total] = ft
        b += [total - 1536, total - 1024, total - 512, total - 1]
    info = {'fmt': 'vmdk', 'declared': sectors * 512, 'size_field': (12, 20),
            'carrier_end': desc_at + min(desc_num * 512, (1 << 20) - 1),
            'boundaries': sorted(set(x for x in b if 0 < x <= total)),
            'structured': [(0, 77), (desc_at, desc_at + len(text))] + (
                [(total - 1536, total)] if footer else [])}
    return bytes(body), info


def build_vmdk_text(p):
    """A bare text descriptor file (no sparse header)."""
    text = descriptor_text(p)
    pad = _pget(p, 'pad_lines', 0)
    if pad:
        # comment padding *before* the last ``tail_lines`` lines
        lines = list(p.get('desc_lines') or DEFAULT_DESC_LINES)
        k = _pget(p, 'tail_lines', 0)
        head, tl = (lines[:-k], lines[-k:]) if k else (lines, [])
        padl = ['# padding %06d %s' % (i, 'x' * 40) for i in range(pad)]
        q = dict(p)
        q['desc_lines'] = head + padl + tl
        text = descriptor_text(q)
    desc_end = len(text)
    trailer = p.get('trailer')
    if trailer:
        # the descriptor is followed by more data (kind, length)
        text = text + fill(trailer[0], trailer[1])
    return text, {'fmt': 'vmdk', 'declared': None,
                  'boundaries': sorted(set(
                      b for b in (4, 64, 512, 4096, desc_end, len(text))
                      if 0 < b <= len(text))),
                  'structured': [(0, desc_end)], 'text': True}


# ---------------------------------------------------------------- vdi

def build_vdi(p):
    size = _pget(p, 'size', 1 << 30)
    total = max(_pget(p, 'total', 1024), 0)
    body = bytearray(fill(_pget(p, 'fill', 'zero'), total))
    hdr = bytearray(fill(_pget(p, 'hdr_fill', 'zero'), 512))
    pre = b'<<< Oracle VM VirtualBox Disk Image >>>\n'
    hdr[0:len(pre)] = pre
    hdr[len(pre):0x40] = bytes(0x40 - len(pre))
    hdr[0x40:0x44] = struct.pack('<I', _pget(p, 'sig', 0xbeda107f))
    hdr[0x44:0x48] = struct.pack('<I', 0x00010001)
    hdr[0x170:0x178] = struct.pack('<Q', size)
    _put(body, 0, bytes(hdr))
    del body[total:]
    return bytes(body), {'fmt': 'vdi', 'declared': size,
                         'size_field': (0x170, 0x178), 'carrier_end': 512,
                         'boundaries': [0x40, 0x44, 0x170, 0x178, 512],
                         'structured': [(0x40, 0x48), (0x170, 0x178)]}


# ---------------------------------------------------------------- iso

def build_iso(p):
    blocks = _pget(p, 'blocks', 1000)
    bsize = _pget(p, 'bsize', 2048)
    total = max(_pget(p, 'total', 34 * KI + 2048), 0)
    body = bytearray(fill(_pget(p, 'fill', 'zero'), total))
    sys_area = fill(_pget(p, 'sys_fill', 'zero'), 32 * KI)
    pvd = bytearray(2048)
    pvd[0] = _pget(p, 'dtype', 1)
    pvd[1:6] = _pget(p, 'ident', 'CD001').encode('latin-1')[:5].ljust(5, b' ')
    pvd[6] = 1
    pvd[40:72] = b'OSLO_SIM'.ljust(32, b' ')
    # both-endian fields; the big-endian halves may be made inconsistent
    pvd[80:84] = struct.pack('<L', blocks & 0xffffffff)
    pvd[84:88] = struct.pack('>L', _pget(p, 'blocks_be', blocks) & 0xffffffff)
    pvd[128:130] = struct.pack('<H', bsize & 0xffff)
    pvd[130:132] = struct.pack('>H', _pget(p, 'bsize_be', bsize) & 0xffff)
    _put(body, 0, sys_area)
    _put(body, 32 * KI, bytes(pvd))
    # further descriptors of the volume recognition sequence (ECMA-119
    # supplementary / partition / terminator descriptors, the ECMA-167
    # BEA01 / NSR0x / TEA01 run of a UDF bridge disc), one per sector
    for i, (dt, ident) in enumerate(_pget(p, 'vrs', [])):
        _put(body, 34 * KI + 2048 * i, _iso_vd(dt, ident))
    del body[total:]
    declared = (blocks & 0xffffffff) * (bsize & 0xffff)
    if _pget(p, 'dtype', 1) != 1:
        declared = 0
    return bytes(body), {'fmt': 'iso', 'declared': declared,
                         'size_field': (32 * KI + 80, 32 * KI + 130),
                         'carrier_end': 34 * KI,
                         'boundaries': [510, 512, 32 * KI, 32 * KI + 1,
                                        32 * KI + 6, 32 * KI + 80,
                                        32 * KI + 84, 32 * KI + 128,
                                        32 * KI + 130, 34 * KI],
                         'structured': [(32 * KI, 32 * KI + 132)]}


# ---------------------------------------------------------------- gpt/mbr

def build_gpt(p):
    """MBR with four slots: each slot [boot, ostype, chs(3 ints), lba, size]
    or None for an empty slot. Default: protective MBR."""
    slots = p.get('slots')
    if slots is None:
        slots = [[0, 0xEE, [0, 2, 0], 1, 0xffffffff], None, None, None]
    total = max(_pget(p, 'total', 1024 + 512), 0)
    body = bytearray(fill(_pget(p, 'fill', 'zero'), total))
    mbr = bytearray(fill(_pget(p, 'boot_fill', 'zero'), 446)) + bytearray(66)
    for i, s in enumerate(slots[:4]):
        if s is None:
            continue
        boot, ostype, chs, lba, sz = s
        off = 446 + 16 * i
        mbr[off] = boot & 0xff
        mbr[off + 1:off + 4] = bytes(x & 0xff for x in chs)
        mbr[off + 4] = ostype & 0xff
        mbr[off + 5:off + 8] = bytes(_pget(p, 'end_chs', [0xff, 0xff, 0xff]))
        mbr[off + 8:off + 16] = struct.pack('<II', lba & 0xffffffff,
                                            sz & 0xffffffff)
    mbr[510:512] = bytes.fromhex(_pget(p, 'sig', '55aa'))
    if p.get('fat'):
        mbr[0x10] = 2
        mbr[0x15] = 0xF8
    elif mbr[0x10] == 2 and mbr[0x15] == 0xF8:
        mbr[0x15] = 0xF0
    _put(body, 0, bytes(mbr))
    if total >= 1024 and p.get('efi', True):
        _put(body, 512, b'EFI PART')
    del body[total:]
    return bytes(body), {'fmt': 'gpt', 'declared': total,
                         'boundaries': [0x10, 0x15, 446, 462, 478, 494, 510,
                                        512],
                         'structured': [(446, 512)]}


# ---------------------------------------------------------------- luks

def build_luks(p):
    payload = _pget(p, 'payload', 4)   # sectors (LUKS1 default 4096, small here)
    total = max(_pget(p, 'total', 592 + 2048 + 1000), 0)
    body = bytearray(fill(_pget(p, 'fill', 'zero'), total))
    hdr = bytearray(fill(_pget(p, 'hdr_fill', 'zero'), 592))
    hdr[0:6] = bytes.fromhex(_pget(p, 'magic', '4c554b53babe'))
    hdr[6:8] = struct.pack('>H', _pget(p, 'version', 1) & 0xffff)
    hdr[8:40] = b'aes'.ljust(32, b'\0')
    hdr[40:72] = b'xts-plain64'.ljust(32, b'\0')
    hdr[72:104] = b'sha256'.ljust(32, b'\0')
    hdr[104:108] = struct.pack('>I', payload & 0xffffffff)
    hdr[108:112] = struct.pack('>I', 32)
    _put(body, 0, bytes(hdr))
    del body[total:]
    return bytes(body), {'fmt': 'luks', 'declared': total - payload * 512,
                         'size_field': (104, 108), 'carrier_end': 592,
                         'boundaries': [6, 8, 104, 108, 592],
                         'structured': [(0, 112)]}


# ---------------------------------------------------------------- raw

def build_raw(p):
    total = max(_pget(p, 'total', 4096), 0)
    body = bytearray(fill(_pget(p, 'fill', 'rand:1'), total))
    late = p.get('late_byte')
    if late is not None and late[0] < total:
        body[late[0]] = late[1]
    return bytes(body), {'fmt': 'raw', 'declared': total,
                         'boundaries': [x for x in (4, 6, 8, 64, 512, 592)
                                        if x <= total],
                         'structured': []}


# ---------------------------------------------------------------- overlay

SIGNATURES = {
    # name: (offset, bytes)
    'qcow2': (0, b'QFI\xfb'),
    'qed': (0, b'QED\x00'),
    'vhd': (0, b'conectix'),
    'vhdx': (0, b'vhdxfile'),
    'vmdk': (0, b'KDMV'),
    'luks': (0, b'LUKS\xba\xbe'),
    'vdi': (0x40, struct.pack('<I', 0xbeda107f)),
    'gpt': (510, b'\x55\xaa'),
    'iso': (32 * KI + 1, b'CD001'),
}


def build_overlay(p):
    """Signatures overlaid on a background. p: sigs (list of names), total,
    fill, fat (bool), iso_ident."""
    total = max(_pget(p, 'total', 4096), 0)
    body = bytearray(fill(_pget(p, 'fill', 'zero'), total))
    b = []
    structured = []
    for name in p.get('sigs') or []:
        off, sig = SIGNATURES[name]
        if name == 'iso' and p.get('iso_ident'):
            sig = p['iso_ident'].encode('latin-1')
        if name == 'vmdk':
            # a plausible sparse header so that the inspector can go on
            hp = dict(p.get('vmdk_p') or {})
            hp.setdefault('desc_num', 0)
            sig = bytes(sparse_header(hp))[:64]
        _put(body, off, sig)
        b += [off, off + len(sig)]
        structured.append((off, off + len(sig)))
    # signatures near the END of the stream (where a fixed-size VHD keeps its
    # only footer and a stream-optimised VMDK its footer header, plus decoys)
    tail_placed = []
    for name, back in p.get('tail') or []:
        off = total - back
        _o, sig = SIGNATURES[name]
        if name == 'vmdk':
            sig = bytes(sparse_header({'desc_num': 0}))[:64]
        if off < 1024 or (off < 34 * KI and off + len(sig) > 32 * KI):
            continue
        _put(body, off, sig)
        b += [off, off + len(sig)]
        tail_placed.append(name)
    if p.get('fat'):
        _put(body, 0x10, b'\x02')
        _put(body, 0x15, b'\xf8')
    elif len(body) > 0x15 and body[0x10] == 2 and body[0x15] == 0xF8:
        body[0x15] = 0xF0
    del body[total:]
    b += [6, 64, 512, 592, 32 * KI, 34 * KI, 192 * KI, 256 * KI]
    return bytes(body), {'fmt': 'overlay', 'declared': None,
                         'boundaries': sorted(set(x for x in b
                                                  if 0 < x <= total)),
                         'structured': structured,
                         'tail_sigs': tail_placed}


# ---------------------------------------------------------------- tiled

def _iso_vd(dtype, ident):
    vd = bytearray(2048)
    vd[0] = dtype
    vd[1:6] = ident.encode('latin-1')[:5].ljust(5, b' ')
    vd[6] = 1
    return bytes(vd)


def tile_unit(name):
    """One structural unit of some format, to be repeated over a stream."""
    if name.startswith('iso:'):
        _x, dtype, ident = name.split(':')
        return _iso_vd(int(dtype), ident)
    if name == 'regi':
        u = bytearray(64)
        # few entries: the shipped inspector re-walks the whole region table
        # after every chunk for as long as it has not found the metadata
        # entry, which makes a full table cost milliseconds per chunk
        struct.pack_into('<4sII', u, 0, b'regi', 0, 8)
        return bytes(u)
    if name == 'metadata':
        u = bytearray(64)
        struct.pack_into('<8sHH', u, 0, b'metadata', 0, 2047)
        return bytes(u)
    if name == 'kdmv_footer':
        return bytes(sparse_header({'desc_num': 2048}, 0xffffffffffffffff))
    if name == 'kdmv':
        return bytes(sparse_header({'desc_num': 2048}))
    if name == 'mbr':
        u = bytearray(512)
        u[446:462] = bytes([0x80, 0, 2, 0, 0xEE, 255, 255, 255]) + \
            struct.pack('<II', 1, 0xffffffff)
        u[510:512] = b'\x55\xaa'
        return bytes(u)
    if name == 'desc_line':
        return b'RW 2048 SPARSE "disk.vmdk"\n'
    off, sig = SIGNATURES[name]
    return sig.ljust(64, b'\x00')


def build_tiled(p):
    """A hostile stream made of one structural unit repeated to the end
    (p: unit, period, start, total, fill, lead: leading signatures as in the
    overlay layout)."""
    total = max(_pget(p, 'total', 1 << 20), 0)
    body, info = build_overlay({'sigs': p.get('lead') or [], 'total': total,
                                'fill': _pget(p, 'fill', 'zero')})
    body = bytearray(body)
    unit = tile_unit(_pget(p, 'unit', 'iso:0:BEA01'))
    period = max(_pget(p, 'period', len(unit)), 1)
    pos = _pget(p, 'start', 0)
    while pos < total:
        _put(body, pos, unit)
        pos += max(period, 1)
    del body[total:]
    info = dict(info)
    info['fmt'] = 'tiled'
    return bytes(body), info


BUILDERS = {
    'qcow2': build_qcow2, 'qed': build_qed, 'vhd': build_vhd,
    'vhdx': build_vhdx, 'vmdk': build_vmdk, 'vmdk_text': build_vmdk_text,
    'vdi': build_vdi, 'iso': build_iso, 'gpt': build_gpt, 'luks': build_luks,
    'raw': build_raw, 'overlay': build_overlay, 'tiled': build_tiled,
}


def build(recipe):
    data, info = BUILDERS[recipe['layout']](recipe.get('p') or {})
    info = dict(info)
    info['layout'] = recipe['layout']
    muts = recipe.get('mut') or []
    ext = recipe.get('ext')
    if ext:
        data = data + fill(ext[0], ext[1])
    if muts:
        buf = bytearray(data)
        for off, hx in muts:
            bs = bytes.fromhex(hx)
            if 0 <= off < len(buf):
                buf[off:off + len(bs)] = bs[:len(buf) - off]
        data = bytes(buf)
    trunc = recipe.get('trunc')
    if trunc is not None and trunc < len(data):
        data = data[:max(trunc, 0)]
    n = len(data)
    info['boundaries'] = sorted(set(
        b for b in info['boundaries'] if 0 < b < n))
    info['length'] = n
    info['mutated'] = bool(muts)
    info['truncated'] = trunc is not None
    return data, info


def is_texty_prefix(data):
    """True when the first min(64, len) bytes are printable/space ASCII and the
    content does not carry the sparse-extent magic: VMDK text-descriptor
    territory (finding F1)."""
    head = data[:64]
    if head.startswith(b'KDMV'):
        return False
    try:
        s = head.decode('ascii')
    except UnicodeDecodeError:
        return False
    return all(c.isprintable() or c.isspace() for c in s)
