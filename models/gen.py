"""Seeded generators of content recipes (see models.formats)."""
from models import formats as F
from sim.core import weighted

KI = 1024
MI = 1024 * 1024

LAYOUTS = ('qcow2', 'qed', 'vhd', 'vhdx', 'vmdk', 'vmdk_text', 'vdi', 'iso',
           'gpt', 'luks', 'raw')


def interesting_size(rng, bits=64):
    top = (1 << bits) - 1
    ks = [k for k in (9, 16, 31, 32, 40, 63) if k < bits]
    c = rng.random()
    if c < 0.08:
        return 0
    if c < 0.14:
        return 1
    if c < 0.22:
        return top
    if c < 0.6:
        k = rng.choice(ks)
        return min(top, max(0, (1 << k) + rng.choice((-1, 0, 1))))
    if c < 0.8:
        return rng.randrange(0, top + 1)
    return rng.randrange(1, 1 << rng.randrange(1, bits))


def rfill(rng, allow_text=False):
    kinds = ['zero', 'zero', 'rand:%d' % rng.randrange(1 << 20), 'inc', 'ff']
    if allow_text:
        kinds.append('text')
    return rng.choice(kinds)


def around(rng, x, lo=0):
    return max(lo, x + rng.choice((-2, -1, 0, 0, 1, 2, 7, 100, 513)))


def gen_qcow2(rng):
    p = {'version': weighted(rng, [(3, 6), (2, 3)]),
         'size': interesting_size(rng),
         'total': rng.choice((512, 513, 600, 1024, 4096, 70000)),
         'fill': rfill(rng)}
    if rng.random() < 0.6:
        p['hdr_rand'] = rng.randrange(1 << 30)
    if p['version'] == 3 and rng.random() < 0.4:
        p['features'] = rng.choice((1, 2, 8, 3, 9, 11))
    return p


def gen_vhd(rng):
    p = {'size': interesting_size(rng),
         'total': rng.choice((512, 513, 1024, 1536, 66000)),
         'fill': rfill(rng), 'hdr_fill': rng.choice(('zero', 'inc'))}
    if rng.random() < 0.4:
        # a resized disk: "current size" differs from the size at offset 40
        p['cur_size'] = interesting_size(rng)
    if rng.random() < 0.6:
        # creator application (Virtual PC, qemu, XenServer, disk2vhd, ...)
        p['creator'] = rng.choice(('win ', 'qemu', 'qem2', 'vpc ', 'd2v ',
                                   'CTXS', 'tap\x00', 'vbox'))
    return p


def gen_vhdx(rng, big_tables=True):
    p = {'size': interesting_size(rng)}
    c = rng.random()
    if c < 0.5:
        p['r_before'] = rng.randrange(0, 4)
        p['r_after'] = rng.randrange(0, 3)
    elif big_tables and c < 0.6:
        p['r_before'] = rng.choice((2045, 2046, 1000))
        p['r_after'] = 2046 - p['r_before'] if p['r_before'] < 2046 else 0
    else:
        p['r_before'] = rng.randrange(0, 40)
        p['r_after'] = rng.randrange(0, 40)
    c = rng.random()
    if c < 0.5:
        p['m_before'] = rng.randrange(0, 5)
        p['m_after'] = rng.randrange(0, 4)
    elif big_tables and c < 0.6:
        p['m_before'] = rng.choice((2046, 2045, 1500))
        p['m_after'] = 2046 - p['m_before']
    else:
        p['m_before'] = rng.randrange(0, 60)
        p['m_after'] = rng.randrange(0, 60)
    m_count = p['m_before'] + 1 + p['m_after']
    entries = 32 + 32 * m_count
    p['meta_offset'] = weighted(rng, [
        (256 * KI, 5), (256 * KI + 4096 * rng.randrange(1, 30), 2),
        (256 * KI + 64 * KI * rng.randrange(1, 4), 2), (MI, 2), (2 * MI, 1),
        (256 * KI + rng.randrange(1, 5000), 1)])
    p['item_offset'] = weighted(rng, [
        (64 * KI, 4), (entries, 3), (entries + rng.randrange(1, 4000), 3),
        (64 * KI + 4096 * rng.randrange(1, 8), 1),
        (64 * KI - rng.randrange(1, 200) if entries < 64 * KI - 300
         else 64 * KI, 1)])
    if rng.random() < 0.08:
        # hostile: pointers that point behind the table that holds them
        if rng.random() < 0.5:
            p['meta_offset'] = rng.choice((0, 32, 64 * KI, 128 * KI, 192 * KI,
                                           192 * KI + 16 + 32 * 3,
                                           200 * KI, 256 * KI - 1,
                                           256 * KI - 4096))
        else:
            p['item_offset'] = rng.choice((0, 8, 32, entries - 1,
                                           entries - 8, entries // 2))
    p['tail'] = rng.choice((0, 1, 512, 5000, 70000))
    if p['m_after'] and rng.random() < 0.15:
        p['user_dup'] = rng.randint(1, min(2, p['m_after']))
    p['fill'] = rng.choice(('zero', 'zero', 'rand:%d' % rng.randrange(999),
                            'inc'))
    p['guid_seed'] = rng.randrange(1 << 20)
    return p


EXTENT_LINES = [
    'RW 2048 SPARSE "disk.vmdk"', 'RDONLY 2048 SPARSE "disk.vmdk"',
    'NOACCESS 4096 SPARSE "disk-s001.vmdk"', 'rw 16 sparse "a b.vmdk"',
    'RW 2048 FLAT "disk-flat.vmdk" 0', 'RW 4192256 SPARSE "test-s001.vmdk"',
]


# extent lines a hand-edited or hostile descriptor may carry: the size token
# is not a plain decimal, is missing, or the line stops early
EXTENT_ODD = [
    'RW 0x2000 FLAT "disk-flat.vmdk" 0', 'RW SPARSE "disk.vmdk"',
    'RW 1e6 SPARSE "disk.vmdk"', 'RW -1 SPARSE "disk.vmdk"', 'RW',
    'RW 2048', 'RDONLY 99999999999999999999999999 SPARSE "d.vmdk"',
    'RW 2048.5 SPARSE "disk.vmdk"', 'RW 2048 SPARSE', 'NOACCESS  7 ZERO',
    'RW\t2048\tSPARSE\t"disk.vmdk"',
]


def gen_desc_lines(rng, create='monolithicSparse'):
    key = rng.choice(('createType', 'createType', 'CREATETYPE', 'createtype',
                      'CreateType'))
    lines = []
    if rng.random() < 0.8:
        lines.append('# Disk DescriptorFile')
    lines += ['version=1', 'CID=%08x' % rng.randrange(1 << 32),
              'parentCID=ffffffff']
    if rng.random() < 0.3:
        lines.append('encoding="UTF-8"')
    # (editors leave blanks at line ends)
    lines.append('%s="%s"%s' % (key, create, rng.choice(
        ('', '', '', '', '', ' ', '\t', '  '))))
    if rng.random() < 0.7:
        lines += ['', '# Extent description']
    for _ in range(rng.randint(1, 3)):
        lines.append(rng.choice(EXTENT_LINES))
    if rng.random() < 0.12:
        lines.insert(rng.randint(0, len(lines)), rng.choice(EXTENT_ODD))
    if rng.random() < 0.8:
        lines += ['', '# The Disk Data Base', '#DDB', '']
        lines += ['ddb.virtualHWVersion = "4"',
                  'ddb.geometry.cylinders = "%d"' % rng.randrange(1, 9999),
                  'ddb.adapterType = "ide"']
    return lines


def gen_vmdk(rng, footer=None):
    p = {'sectors': interesting_size(rng, 55),
         'version': rng.choice((1, 1, 2, 3)),
         'desc_num': weighted(rng, [(1, 2), (2, 2), (20, 4), (rng.randrange(1, 64), 2),
                                    (2047, 0.3), (rng.randrange(64, 2048), 0.3)]),
         'desc_lines': gen_desc_lines(
             rng, rng.choice(('monolithicSparse', 'streamOptimized'))),
         'data_after': rng.choice((0, 1, 512, 1024, 70000)),
         'fill': rng.choice(('zero', 'zero', 'inc',
                             'rand:%d' % rng.randrange(999)))}
    if footer is None:
        footer = rng.random() < 0.3
    if footer:
        p['footer'] = True
    if rng.random() < 0.12:
        p['desc_nl'] = '\r\n'       # descriptors written on Windows
    if rng.random() < 0.3:
        p['hdr_tail'] = rng.choice(('inc', 'ff', 'rand:%d' % rng.randrange(
            1 << 16)))
    return p


def gen_vmdk_text(rng):
    p = {'desc_lines': gen_desc_lines(
        rng, rng.choice(('monolithicSparse', 'streamOptimized',
                         'monolithicFlat', 'vmfs')))}
    if rng.random() < 0.5:
        p['pad_lines'] = rng.choice((1, 5, 9, 60, 100))
        p['tail_lines'] = rng.choice((0, 1, 4))
    if rng.random() < 0.3:
        p['trailer'] = [rng.choice(('text', 'zero', 'inc')),
                        rng.choice((1, 7, 512, 5000))]
    return p


def gen_vdi(rng):
    return {'size': interesting_size(rng),
            'total': rng.choice((512, 513, 1024, 2048, 66000)),
            'fill': rfill(rng), 'hdr_fill': rng.choice(('zero', 'inc'))}


def gen_iso(rng):
    p = {'blocks': interesting_size(rng, 32),
         'bsize': rng.choice((512, 1024, 2048, 2048, 4096, 32768)),
         'ident': weighted(rng, [('CD001', 12), ('NSR02', 2), ('NSR03', 2),
                                 ('BEA01', 2), ('TEA01', 1), ('BOOT2', 1)]),
         'total': rng.choice((34 * KI, 34 * KI + 1, 36 * KI, 100000)),
         'fill': rfill(rng), 'sys_fill': rng.choice(('zero', 'zero', 'inc'))}
    if rng.random() < 0.3:
        # the rest of the volume recognition sequence
        if p['ident'] == 'BEA01' or rng.random() < 0.3:
            tail = [[0, rng.choice(('NSR02', 'NSR03'))], [0, 'TEA01']]
            if p['ident'] != 'BEA01':
                tail.insert(0, [0, 'BEA01'])
        else:
            tail = []
        head = [[rng.choice((0, 2, 2, 3)), 'CD001']
                for _ in range(rng.choice((0, 0, 1, 2, 5)))]
        if p['ident'] == 'CD001':
            head.append([255, 'CD001'])
        p['vrs'] = head + tail
        p['total'] = max(p['total'], 34 * KI + 2048 * len(p['vrs']) +
                         rng.choice((0, 1, 2048)))
    if rng.random() < 0.15:
        p['blocks_be'] = rng.randrange(1 << 32)
        p['bsize_be'] = rng.randrange(1 << 16)
    return p


def gen_slot(rng, kind):
    if kind == 'empty':
        return None
    boot = rng.choice((0, 0, 0x80))
    if kind == 'ee':
        return [boot, 0xEE, [0, 2, 0], 1, rng.choice((0xffffffff, 2047))]
    return [boot, rng.choice((0x83, 0x07, 0x0c, 0x82, 0x05, 1, 0xff)),
            [rng.randrange(256), rng.randrange(256), rng.randrange(256)],
            rng.randrange(1, 1 << 32), rng.randrange(1, 1 << 32)]


def gen_gpt(rng):
    c = rng.random()
    if c < 0.5:
        slots = [gen_slot(rng, 'ee'), None, None, None]
    else:
        n = rng.randint(1, 4)
        slots = [gen_slot(rng, 'plain') for _ in range(n)] + [None] * (4 - n)
        rng.shuffle(slots)
    return {'slots': slots, 'total': rng.choice((512, 513, 1024, 1536, 66000)),
            'fill': rfill(rng),
            'boot_fill': rng.choice(('zero', 'rand:%d' % rng.randrange(999)))}


def gen_luks(rng):
    total = rng.choice((592, 593, 1024, 4096, 70000))
    return {'payload': rng.choice((0, 1, 2, 4, total // 512)),
            'total': total, 'fill': rfill(rng),
            'hdr_fill': rng.choice(('zero', 'inc'))}


def gen_qed(rng):
    return {'total': rng.choice((512, 513, 1024, 66000)), 'fill': rfill(rng)}


def gen_raw(rng):
    kind = rng.random()
    total = weighted(rng, [(0, 1), (rng.randrange(1, 8), 1),
                           (rng.randrange(8, 700), 3),
                           (rng.randrange(700, 40000), 3),
                           (rng.randrange(40000, 300000), 1)])
    if kind < 0.3:
        p = {'total': total, 'fill': 'zero'}
    elif kind < 0.6:
        p = {'total': total, 'fill': 'rand:%d' % rng.randrange(1 << 20)}
    else:
        p = {'total': total, 'fill': 'text'}
        if rng.random() < 0.5 and total:
            p['late_byte'] = [rng.randrange(total), rng.choice((0xff, 0x80,
                                                                0, 0xc3))]
    return p


GEN = {'qcow2': gen_qcow2, 'qed': gen_qed, 'vhd': gen_vhd, 'vhdx': gen_vhdx,
       'vmdk': gen_vmdk, 'vmdk_text': gen_vmdk_text, 'vdi': gen_vdi,
       'iso': gen_iso, 'gpt': gen_gpt, 'luks': gen_luks, 'raw': gen_raw}

LAYOUT_WEIGHTS = [('qcow2', 3), ('qed', 1), ('vhd', 2), ('vhdx', 6),
                  ('vmdk', 6), ('vmdk_text', 2), ('vdi', 2), ('iso', 2),
                  ('gpt', 2), ('luks', 2), ('raw', 2)]


def gen_wellformed(rng, layout=None, weights=None):
    layout = layout or weighted(rng, weights or LAYOUT_WEIGHTS)
    return {'layout': layout, 'p': GEN[layout](rng)}


MUT_VALUES = (b'\x00', b'\x01', b'\x80', b'\xff', b'\x7f', b'\x02')


def gen_mutations(rng, info, n=None):
    """1-4 byte/field patches inside the structured areas."""
    ranges = [r for r in info['structured'] if r[1] > r[0]]
    if not ranges:
        return []
    muts = []
    for _ in range(n or rng.randint(1, 4)):
        a, b = rng.choice(ranges)
        off = rng.randrange(a, b)
        c = rng.random()
        if c < 0.6:
            val = rng.choice(MUT_VALUES)
        elif c < 0.8:
            val = bytes([rng.randrange(256)])
        else:
            width = rng.choice((2, 4, 8))
            val = rng.choice((b'\x00' * width, b'\xff' * width,
                              rng.randbytes(width)))
        muts.append([off, val.hex()])
    return muts


def gen_overlay(rng):
    at0 = ['qcow2', 'qed', 'vhd', 'vhdx', 'vmdk', 'luks']
    sigs = []
    if rng.random() < 0.7:
        sigs.append(rng.choice(at0))
    for name, pr in (('vdi', 0.3), ('gpt', 0.4), ('iso', 0.3)):
        if rng.random() < pr:
            sigs.append(name)
    decision = (6, 64, 512, 592, 34 * KI, 256 * KI)
    total = around(rng, rng.choice(decision))
    if 'iso' in sigs and rng.random() < 0.8:
        total = max(total, around(rng, 34 * KI, 32 * KI + 6))
    if total > 100000 and rng.random() < 0.5:
        total = around(rng, 34 * KI)
    p = {'sigs': sigs, 'total': total,
         'fill': rng.choice(('zero', 'zero', 'text', 'inc',
                             'rand:%d' % rng.randrange(1 << 20)))}
    if 'gpt' in sigs and rng.random() < 0.3:
        p['fat'] = True
    if rng.random() < 0.25:
        # trailing signatures; needs room after the leading structures
        p['tail'] = [rng.choice((['vhd', 512], ['vhd', 511], ['vmdk', 1024],
                                 ['qcow2', 512], ['luks', 592],
                                 ['vhdx', 65536], ['qed', 512]))]
        if rng.random() < 0.5:
            p['total'] = max(p['total'], rng.choice((4096, 70000,
                                                     256 * KI + 4096)))
    return {'layout': 'overlay', 'p': p}


def gen_big(rng, knobs):
    """A stream whose length sits just around one of the size knobs of the
    module under test (sim.imgsim.size_knobs): unstructured filler, or a
    well-formed image followed by that much trailing data."""
    k = rng.choice(knobs)
    total = k + rng.choice((-1, 0, 1, 1, 512, 4096, k // 4))
    f = rng.choice(('zero', 'text', 'text', 'inc',
                    'rand:%d' % rng.randrange(1 << 20)))
    if rng.random() < 0.55:
        return 'big', {'layout': 'raw', 'p': {'total': total, 'fill': f}}
    rec = gen_wellformed(rng)
    rec['ext'] = [f, total]
    return 'big', rec


CONTENT_CLASSES = [('wellformed', 4), ('mutated', 5), ('truncated', 3),
                   ('extended', 1), ('polyglot', 2), ('unstructured', 2)]


def gen_content(rng, cls=None, layout=None, weights=None):
    """-> (class name, recipe)."""
    cls = cls or weighted(rng, CONTENT_CLASSES)
    if cls == 'polyglot':
        return cls, gen_overlay(rng)
    if cls == 'unstructured':
        return cls, {'layout': 'raw', 'p': gen_raw(rng)}
    rec = gen_wellformed(rng, layout, weights)
    if cls == 'wellformed':
        return cls, rec
    data, info = F.build(rec)
    if cls == 'mutated':
        rec['mut'] = gen_mutations(rng, info)
        if rng.random() < 0.15:
            b = info['boundaries']
            if b:
                rec['trunc'] = max(0, rng.choice(b) + rng.choice((-1, 0, 1)))
    elif cls == 'truncated':
        b = info['boundaries']
        if b and rng.random() < 0.85:
            rec['trunc'] = max(0, rng.choice(b) + rng.choice((-1, 0, 0, 1)))
        else:
            rec['trunc'] = rng.randrange(0, len(data) + 1)
    elif cls == 'extended':
        rec['ext'] = [rfill(rng, True), rng.choice((1, 511, 512, 1536, 5000))]
    return cls, rec
