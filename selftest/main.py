"""./check selftest determinism|sensitivity|replay [args]

determinism: every check is run on the same seed range with 1, 4 and 16
worker processes and under different PYTHONHASHSEED values in fresh
interpreters; the batch digests (digest over every run's event-log digest, in
seed order) must be identical.  In addition every case is generated twice and
executed twice in one process: same case, same digest.

sensitivity: see selftest/sensitivity.py.

replay: a planted violation (a mutant from selftest/mutants) must produce a
replay file that reproduces, with the same digest, in a fresh interpreter
against the same mutated tree.
"""
import json
import os
import re
import subprocess
import sys
import time

HERE = os.path.dirname(os.path.abspath(__file__))
VERIF = os.path.dirname(HERE)
ALL = ['C01', 'C02', 'C03', 'C05', 'C06', 'C07', 'C09', 'C12', 'C13', 'C20']
DEFAULT_RUNS = {'C01': 1400, 'C02': 3000, 'C03': 3000, 'C05': 300,
                'C06': 1200, 'C07': 3000, 'C09': 4000, 'C12': 4000,
                'C13': 6000, 'C20': 3000}


# first run index: C13's batch begins with a long sweep layer; start shortly
# before its end so that sweep and sampled histories are both covered
START = {'C13': 271200 - 2000}


def batch_digest(pid, runs, workers, hashseed, seed):
    env = dict(os.environ, PYTHONHASHSEED=str(hashseed),
               PYTHONDONTWRITEBYTECODE='1', VERIF_SEED=str(seed))
    p = subprocess.run([os.path.join(VERIF, 'check'), pid, '--runs',
                        str(runs), '--workers', str(workers),
                        '--start', str(START.get(pid, 0)),
                        '--digest-only'], env=env, capture_output=True,
                       text=True)
    m = re.search(r'BATCH-DIGEST (\w+) runs=(\d+)', p.stdout)
    if not m or p.returncode == 2:
        return None, p.stdout[-800:] + p.stderr[-800:]
    return m.group(1), ''


def inprocess_twice(pid, n, seed):
    code = r'''
import sys
sys.path.insert(0, %r)
from sim import core, runner
core.import_sut()
chk = runner.load_check(%r)
chk.setup()
bad = 0
for i in range(%d, %d):
    rs = core.derive_run_seed(%r, %d, i)
    c1 = chk.gen(core.Streams(rs), 'quick', i, %d)
    c2 = chk.gen(core.Streams(rs), 'quick', i, %d)
    if core.canon(c1) != core.canon(c2):
        print('GEN-DIVERGES', i); bad += 1; continue
    d1 = chk.execute(c1)['digest']
    d2 = chk.execute(c1)['digest']
    if d1 != d2:
        print('EXEC-DIVERGES', i, d1, d2); bad += 1
print('TWICE-OK' if not bad else 'TWICE-BAD %%d' %% bad)
''' % (VERIF, pid, START.get(pid, 0), START.get(pid, 0) + n, pid, seed,
       START.get(pid, 0) + n, START.get(pid, 0) + n)
    p = subprocess.run([sys.executable, '-c', code], capture_output=True,
                       text=True, env=dict(os.environ, PYTHONHASHSEED='3'))
    return 'TWICE-OK' in p.stdout, p.stdout[-500:] + p.stderr[-500:]


def determinism(argv):
    pids = [a.upper() for a in argv if not a.startswith('--')] or ALL
    scale = 1.0
    seed = 0
    for a in argv:
        if a.startswith('--scale='):
            scale = float(a.split('=')[1])
        if a.startswith('--seed='):
            seed = int(a.split('=')[1])
    bad = 0
    report = []
    for pid in pids:
        runs = max(50, int(DEFAULT_RUNS[pid] * scale))
        t0 = time.time()
        ds = {}
        for workers, hs in ((1, 0), (4, 1), (16, 7), (16, 0)):
            d, err = batch_digest(pid, runs, workers, hs, seed)
            ds['w%d/hs%d' % (workers, hs)] = d
            if d is None:
                print(pid, 'ERROR', err)
        ok = len(set(ds.values())) == 1 and None not in ds.values()
        ok2, msg = inprocess_twice(pid, min(runs, 400), seed)
        print('%s runs=%d batch-digests %s %s; same-case-twice %s (%.1fs)' % (
            pid, runs, 'IDENTICAL' if ok else 'DIFFER', ds if not ok else
            list(ds.values())[0], 'ok' if ok2 else 'DIVERGES ' + msg,
            time.time() - t0))
        report.append({'property': pid, 'runs': runs, 'digests': ds,
                       'identical': ok, 'twice_ok': ok2})
        if not (ok and ok2):
            bad += 1
    os.makedirs(os.path.join(VERIF, 'selftest', 'reports'), exist_ok=True)
    with open(os.path.join(VERIF, 'selftest', 'reports', 'determinism.json'),
              'w') as f:
        json.dump({'seed': seed, 'report': report}, f, indent=1)
    print('determinism: %d properties, %d bad' % (len(pids), bad))
    return 1 if bad else 0


def replay(argv):
    """Plant a mutant, let the check find, minimise and write the replay,
    then re-run the replay in a fresh interpreter against the same tree."""
    import glob
    import shutil
    import tempfile
    patches = sorted(glob.glob(os.path.join(HERE, 'mutants', '*.patch')))
    want = [a for a in argv if not a.startswith('--')]
    if want:
        patches = [p for p in patches
                   if any(w in os.path.basename(p) for w in want)]
    else:
        seen = set()
        pick = []
        for p in patches:
            pid = os.path.basename(p).split('-')[0]
            if pid not in seen:
                seen.add(pid)
                pick.append(p)
        patches = pick
    bad = 0
    for patch in patches:
        pid = os.path.basename(patch).split('-')[0]
        tmp = tempfile.mkdtemp(prefix='verif-replay-')
        try:
            dst = os.path.join(tmp, 'repo')
            shutil.copytree('/repo', dst, ignore=shutil.ignore_patterns(
                '.git', '__pycache__', '*.pyc', 'doc', 'releasenotes'))
            subprocess.run(['patch', '-p1', '-s', '-i', patch], cwd=dst,
                           check=True)
            env = dict(os.environ, VERIF_REPO=dst)
            p = subprocess.run([os.path.join(VERIF, 'check'), pid, '--tier',
                                'quick', '--no-evidence'], env=env,
                               capture_output=True, text=True)
            files = re.findall(r'VIOLATION property=\w+ replay=(\S+)',
                               p.stdout)
            if p.returncode != 1 or not files:
                print(os.path.basename(patch), 'NO-VIOLATION rc=%d' %
                      p.returncode, p.stderr[-300:])
                bad += 1
                continue
            ok = 0
            for f in files:
                q = subprocess.run([os.path.join(VERIF, 'check'), pid,
                                    '--replay', f], env=dict(
                                        env, PYTHONHASHSEED='5'),
                                   capture_output=True, text=True)
                same = (q.returncode == 1 and 'DIFFERENT-DIGEST' not in
                        q.stdout)
                ok += same
                size = os.path.getsize(f)
                print('%s replay %s bytes=%d %s' % (
                    os.path.basename(patch), os.path.basename(f), size,
                    'REPRODUCES-EXACTLY' if same else 'FAILS-TO-REPRODUCE'))
                # and it must not fire on the unchanged tree
                r0 = subprocess.run([os.path.join(VERIF, 'check'), pid,
                                     '--replay', f], capture_output=True,
                                    text=True)
                if r0.returncode != 0:
                    print('   (also fails on the unchanged tree: rc=%d)' %
                          r0.returncode)
            if ok != len(files):
                bad += 1
        finally:
            shutil.rmtree(tmp, ignore_errors=True)
    print('replay: %d mutants, %d bad' % (len(patches), bad))
    return 1 if bad else 0


def main(argv):
    if not argv:
        print(__doc__)
        return 2
    cmd, rest = argv[0], argv[1:]
    if cmd == 'determinism':
        return determinism(rest)
    if cmd == 'sensitivity':
        from selftest import sensitivity
        return sensitivity.main(rest)
    if cmd == 'replay':
        return replay(rest)
    print(__doc__)
    return 2
