#!/venv/bin/python
"""Sensitivity self-test: every mutant patch in selftest/mutants must (a) keep
the pinned suite passing (checked with --suite) and (b) make the quick check of
its property exit 1.  Patch names: <PID>-<what>.patch.  Works on a scratch copy
of /repo outside /repo and /verif which is removed afterwards."""
import glob, json, os, shutil, subprocess, sys, tempfile, time

HERE = os.path.dirname(os.path.abspath(__file__))
VERIF = os.path.dirname(HERE)


def run_one(patch, suite=False, tier='quick', runs=None):
    pid = os.path.basename(patch).split('-')[0]
    tmp = tempfile.mkdtemp(prefix='verif-mut-')
    try:
        dst = os.path.join(tmp, 'repo')
        shutil.copytree('/repo', dst, ignore=shutil.ignore_patterns('.git', '__pycache__', '*.pyc', '.tox', 'doc', 'releasenotes'))
        p = subprocess.run(['patch', '-p1', '-s', '-i', patch], cwd=dst, capture_output=True, text=True)
        if p.returncode != 0:
            return {'patch': os.path.basename(patch), 'result': 'PATCH-FAILED', 'out': p.stdout + p.stderr}
        res = {'patch': os.path.basename(patch), 'property': pid}
        if suite:
            q = subprocess.run([os.path.join(VERIF, 'tools', 'baseline.py'), dst], capture_output=True, text=True)
            res['suite_ok'] = q.returncode == 0
            res['suite'] = q.stdout.strip().splitlines()[0] if q.stdout else ''
        env = dict(os.environ, VERIF_REPO=dst)
        cmd = [os.path.join(VERIF, 'check'), pid, '--tier', tier, '--no-evidence', '--no-minimise']
        if runs:
            cmd += ['--runs', str(runs)]
        t0 = time.time()
        q = subprocess.run(cmd, env=env, capture_output=True, text=True)
        res['rc'] = q.returncode
        res['wall'] = round(time.time() - t0, 1)
        res['classes'] = sorted(set(l.split()[1] for l in q.stdout.splitlines() if l.startswith('violation class=')))
        res['result'] = 'CAUGHT' if q.returncode == 1 else ('MISSED' if q.returncode == 0 else 'ERROR')
        if q.returncode not in (0, 1):
            res['out'] = (q.stdout + q.stderr)[-1500:]
        return res
    finally:
        shutil.rmtree(tmp, ignore_errors=True)


def main(argv):
    suite = '--suite' in argv
    pats = [a for a in argv if not a.startswith('--')]
    patches = sorted(glob.glob(os.path.join(HERE, 'mutants', '*.patch')))
    if pats:
        patches = [p for p in patches if any(x in os.path.basename(p) for x in pats)]
    bad = 0
    out = []
    for p in patches:
        r = run_one(p, suite)
        out.append(r)
        print(json.dumps(r))
        sys.stdout.flush()
        if r['result'] != 'CAUGHT' or (suite and not r.get('suite_ok')):
            bad += 1
    print('sensitivity: %d mutants, %d not caught / not suite-clean' % (len(patches), bad))
    return 1 if bad else 0


if __name__ == '__main__':
    sys.exit(main(sys.argv[1:]))
