"""C12 - time normalisation, overridden-clock comparison, marshalling.

The simulation content is the wall clock: histories of override / advance /
clear / fixture operations and queries run against timeutils with the wall
clock behind shims (timeutils.datetime / timeutils.time) and against an
integer-microsecond reference clock.
"""
import copy
import datetime as _dt
import fractions
import math
import types
import zoneinfo

from sim import core
from sim.runner import Check

UTC = _dt.timezone.utc
EPOCH = _dt.datetime(1970, 1, 1)
US = _dt.timedelta(microseconds=1)
ZONES = ('UTC', 'Europe/Paris', 'America/New_York', 'Asia/Kolkata',
         'Australia/Lord_Howe', 'Pacific/Kiritimati', 'America/St_Johns',
         'Asia/Kathmandu', 'Africa/Monrovia', 'Europe/Amsterdam')
MIN_US = (_dt.datetime(3, 1, 1) - EPOCH) // US
MAX_US = (_dt.datetime(9997, 12, 31) - EPOCH) // US


def from_us(us):
    return EPOCH + _dt.timedelta(microseconds=us)


def to_us(naive):
    return (naive - EPOCH) // US


def present(us, pres):
    """Build the argument handed to the SUT for instant `us`."""
    naive = from_us(us)
    kind = pres[0]
    if kind == 'naive':
        return naive
    aware = naive.replace(tzinfo=UTC)
    if kind == 'fixed':
        return aware.astimezone(_dt.timezone(_dt.timedelta(minutes=pres[1])))
    if kind == 'fixedsec':
        return aware.astimezone(_dt.timezone(_dt.timedelta(seconds=pres[1])))
    if kind == 'zone':
        return aware.astimezone(zoneinfo.ZoneInfo(pres[1]))
    if kind == 'iso-naive':
        return naive.isoformat()
    if kind == 'iso-fixed':
        return aware.astimezone(
            _dt.timezone(_dt.timedelta(minutes=pres[1]))).isoformat()
    raise ValueError(kind)


class WallClock:
    """Simulated wall clock (integer microseconds since the epoch)."""

    def __init__(self, start_us, steps):
        self.t = start_us
        self.steps = steps
        self.k = 0
        self.log = []
        self.advance = 0

    def _step(self):
        s = self.steps[self.k % len(self.steps)]
        self.k += 1
        self.t = min(max(self.t + s, 10 ** 6), MAX_US)
        if s > 0:
            self.advance += s

    def read(self):
        v = self.t
        self.log.append(v)
        self._step()
        return v


class _AnyDatetime(type):
    """isinstance(x, <shim>.datetime) must hold for every real datetime, as
    it does for the class the shim stands in for."""

    def __instancecheck__(cls, inst):
        return isinstance(inst, _dt.datetime)

    def __subclasscheck__(cls, sub):
        return issubclass(sub, _dt.datetime)


def make_shims(clock):
    class SimDatetime(_dt.datetime, metaclass=_AnyDatetime):
        @classmethod
        def now(cls, tz=None):
            us = clock.read()
            d = from_us(us).replace(tzinfo=UTC)
            if tz is None:
                # local time: the simulation's local zone is UTC
                return d.replace(tzinfo=None)
            return d.astimezone(tz)

        @classmethod
        def utcnow(cls):
            return from_us(clock.read())
    import time as _time

    class Proxy(types.ModuleType):
        """The real module with the clock-reading entry points replaced;
        everything else falls through, so that a tree which uses another
        attribute of the module keeps working."""

        def __init__(self, real, **over):
            super().__init__(real.__name__)
            self.__dict__['_real'] = real
            self.__dict__.update(over)

        def __getattr__(self, name):
            return getattr(self.__dict__['_real'], name)
    dshim = Proxy(_dt, datetime=SimDatetime)
    tshim = Proxy(_time, time=lambda: clock.read() / 1e6,
                  monotonic=lambda: clock.read() / 1e6,
                  time_ns=lambda: clock.read() * 1000,
                  monotonic_ns=lambda: clock.read() * 1000)
    return dshim, tshim


def interesting_instant(rng):
    c = rng.random()
    if c < 0.5:
        base = to_us(_dt.datetime(rng.randrange(1971, 2100), rng.randrange(
            1, 13), rng.randrange(1, 29), rng.randrange(24), rng.randrange(60),
            rng.randrange(60)))
    elif c < 0.7:
        base = rng.randrange(MIN_US, MAX_US)
    elif c < 0.8:
        base = rng.choice((0, 10 ** 6, -10 ** 6, 951782400 * 10 ** 6,
                           1 << 51, (1 << 31) * 10 ** 6))
    else:
        base = to_us(_dt.datetime(rng.choice((3, 100, 1900, 1969, 1970, 2038,
                                              3742, 9997)), 12, 31, 23, 59,
                                  59))
    us = rng.choice((0, 0, 1, 999999, 500000, rng.randrange(10 ** 6)))
    return min(max(base - base % 10 ** 6 + us, MIN_US), MAX_US)


def gen_pres(rng, allow_iso):
    kinds = ['naive', 'fixed', 'fixed', 'zone']
    if allow_iso:
        kinds += ['iso-naive', 'iso-fixed']
    k = rng.choice(kinds)
    if k in ('fixed', 'iso-fixed'):
        return [k, rng.choice((0, 60, -60, 120, 330, -210, 1439, -1439, 1,
                               -1, 765, rng.randrange(-1439, 1440)))]
    if k == 'zone':
        return [k, rng.choice(ZONES)]
    return [k]


_TRANSITIONS = {}


def fall_back_transitions(zone):
    """[(T_us, shift_us)]: UTC instants at which the zone's offset drops (a
    wall-clock hour is repeated), found by scanning a few years."""
    if zone not in _TRANSITIONS:
        z = zoneinfo.ZoneInfo(zone)
        out = []
        for year in (1999, 2021, 2030):
            t = _dt.datetime(year, 1, 1, tzinfo=UTC)
            prev = t.astimezone(z).utcoffset()
            for _h in range(366 * 24 * 2):
                t2 = t + _dt.timedelta(minutes=30)
                off = t2.astimezone(z).utcoffset()
                if off < prev:
                    out.append((to_us(t2.replace(tzinfo=None)),
                                (prev - off) // US))
                prev = off
                t = t2
        _TRANSITIONS[zone] = out
    return _TRANSITIONS[zone]


def fold_pair(rng):
    """Two instants with the same wall-clock reading in a named zone (fold 0
    and fold 1)."""
    zones = [z for z in ZONES if fall_back_transitions(z)]
    zone = rng.choice(zones)
    t, shift = rng.choice(fall_back_transitions(zone))
    u = t - rng.randrange(1, shift)
    u -= u % 10 ** 6
    u += rng.choice((0, 0, 1, 500000))
    return zone, u, u + shift


def gen_seconds(rng):
    c = rng.random()
    if c < 0.35:
        return rng.choice((0, 1, -1, 60, 3600, 86400, 10, 5, -3600, 2 ** 31,
                           86400 * 200, -86400 * 120,
                           rng.randrange(-4 * 10 ** 7, 4 * 10 ** 7)))
    if c < 0.6:
        return rng.randrange(-10 ** 6, 10 ** 6)
    if c < 0.8:
        return rng.randrange(-2 ** 20, 2 ** 20) / 1024.0
    return round(rng.uniform(-1000, 1000), rng.choice((1, 3, 6)))


def seconds_to_us(s):
    return _dt.timedelta(seconds=s) // US


QUERY_OPS = ('utcnow', 'ts', 'ts_us', 'older', 'newer', 'soon',
             'marshall_now0', 'utcnow_tz')
PURE_OPS = ('normalize', 'isoparse', 'marshall', 'leap')
CLOCK_OPS = ('set', 'set_default', 'fixture_up', 'fixture_down', 'adv_delta',
             'adv_seconds', 'clear', 'fx_adv_delta', 'fx_adv_seconds')


class C12(Check):
    ID = 'C12'
    LEVEL = 'exploration'
    RUNS = {'quick': 150000, 'thorough': 8000000}
    BLOCK = 500
    RULE = ('each run: one history (<= 40 ops) over set_time_override / '
            'TimeFixture setUp+cleanUp / advance_time_delta / '
            'advance_time_seconds / clear_time_override on a simulated wall '
            'clock (which also steps, jumps and goes backwards under the '
            'un-overridden path) interleaved with queries utcnow, utcnow_ts '
            '(microsecond or not), is_older_than, is_newer_than, is_soon '
            '(naive, fixed offsets -23:59..+23:59, named zones, ISO '
            'strings; integer, dyadic and decimal second counts with the '
            'exact-equality boundary) and the pure clauses (normalize_time, '
            'parse_isotime(isoformat), unmarshall(marshall), leap second). '
            'distinct = distinct (clock-state, op, presentation kind, '
            'comparison outcome / boundary class) tuples')
    COMPONENTS = {'real': ['oslo_utils.timeutils', 'oslo_utils.fixture.'
                           'TimeFixture', 'iso8601', 'zoneinfo', 'calendar'],
                  'stub': ['wall clock: timeutils.datetime / timeutils.time '
                           'shims reading SimClock; utcnow.override_time is '
                           'driven through the public API']}
    ASSUMPTIONS = ['datetime/zoneinfo arithmetic and timedelta rounding are '
                   'trusted', 'is_soon is not given strings; list-valued '
                   'overrides are not generated (outside the statement)',
                   'utcnow_ts(microsecond=True) is compared within one ulp '
                   'of the exact rational']
    FAULT_KINDS = ('wall_clock_jump_forward', 'wall_clock_step_backward',
                   'wall_clock_stall')
    PROBES = ('comparison_at_exact_boundary', 'comparison_one_us_off',
              'override_active_query', 'unoverridden_query',
              'fixture_cleanup_clears', 'iso_string_argument',
              'named_zone_argument', 'leap_second_capped',
              'same_wall_time_both_folds',
              'margin_reaches_beyond_representable_range',
              'override_in_named_zone')

    def setup(self):
        core.import_sut()
        from oslo_utils import fixture, timeutils
        self.tu = timeutils
        self.fx = fixture
        # harness-side table (zone transitions), computed once per worker
        for z in ZONES:
            fall_back_transitions(z)

    def gen(self, st, tier, index, total):
        rng = st('ops')
        n = 1
        while n < 40 and rng.random() < 0.9:
            n += 1
        ops = []
        cur_zone = None
        for _ in range(n):
            kind = core.weighted(rng, [('clock', 3), ('query', 6),
                                       ('pure', 2)])
            if kind == 'clock':
                op = rng.choice(CLOCK_OPS)
                if op in ('set', 'fixture_up', 'set_default', 'clear',
                          'fixture_down'):
                    cur_zone = None
                if op in ('set', 'fixture_up'):
                    o = [op, interesting_instant(rng)]
                    if rng.random() < 0.05:
                        # ... or in a named zone (advances are then only
                        # made where wall-clock and exact arithmetic agree,
                        # see _do)
                        cur_zone = rng.choice(ZONES[1:])
                        o.append(['zone', cur_zone])
                    elif rng.random() < 0.12:
                        # the override instant handed over as an AWARE
                        # datetime (fixed offset or named zone)
                        # (fixed offsets only: with a named zone Python adds
                        # timedeltas on the wall clock, so an advance across
                        # a DST change is inexact by construction)
                        o.append(['fixed', rng.choice((
                            0, 60, -60, 330, -210, 1439, -1439, 1, -1,
                            rng.randrange(-1439, 1440)))])
                    ops.append(o)
                elif op in ('adv_delta', 'fx_adv_delta'):
                    ops.append([op, rng.choice((
                        1, -1, 10 ** 6, 86400 * 10 ** 6, 999999,
                        rng.randrange(-10 ** 12, 10 ** 12)))])
                elif op in ('adv_seconds', 'fx_adv_seconds'):
                    ops.append([op, gen_seconds(rng)])
                else:
                    ops.append([op])
            elif kind == 'query':
                op = rng.choice(QUERY_OPS)
                if op in ('older', 'newer', 'soon'):
                    # t relative to "now" is decided at run time: store an
                    # offset from now in microseconds plus the margin
                    s = gen_seconds(rng)
                    b = rng.random()
                    delta = ('boundary', rng.choice((0, 0, 1, -1))) \
                        if b < 0.5 else ('free', rng.randrange(
                            -10 ** 10, 10 ** 10))
                    pres = gen_pres(rng, op != 'soon')
                    if cur_zone and rng.random() < 0.6:
                        # t in the override's own zone, typically on the
                        # other side of a change of its UTC offset
                        pres = ['zone', cur_zone]
                        if rng.random() < 0.7:
                            s = rng.choice((86400 * 200, -86400 * 120,
                                            2 ** 31, rng.randrange(
                                                -4 * 10 ** 7, 4 * 10 ** 7)))
                            if rng.random() < 0.5:
                                delta = ('boundary', rng.choice((
                                    0, 1, -1, 3599 * 10 ** 6,
                                    -3599 * 10 ** 6, 1800 * 10 ** 6)))
                    ops.append([op, list(delta), s, pres])
                else:
                    ops.append([op])
            else:
                op = rng.choice(PURE_OPS)
                ops.append([op, interesting_instant(rng),
                            gen_pres(rng, False) if op != 'marshall'
                            else rng.choice((['naive'], ['fixed', 0],
                                             ['zone', 'UTC']))])
                if op == 'isoparse' and rng.random() < 0.15:
                    # offsets with seconds (local mean time zones)
                    sec = rng.choice((1, -1, 59, -59, 17762, -17762, 3601,
                                      -3601, rng.randrange(-86399, 86400)))
                    ops[-1][2] = ['fixedsec', sec]
        if rng.random() < 0.2:
            # the same wall-clock reading twice (DST fall-back): answers must
            # not be carried over from one call to the next
            zone, u1, u2 = fold_pair(rng)
            if rng.random() < 0.5:
                u1, u2 = u2, u1
            pos = rng.randint(0, len(ops))
            which = rng.choice(('normalize', 'normalize', 'cmp_abs'))
            for u in (u2, u1):
                if which == 'normalize':
                    ops.insert(pos, ['normalize', u, ['zone', zone]])
                else:
                    ops.insert(pos, ['cmp_abs', rng.choice(
                        ('older', 'newer', 'soon')), u, gen_seconds(rng),
                        ['zone', zone]])
        if rng.random() < 0.75:
            ops.insert(0, ['set', interesting_instant(rng)])
        if rng.random() < 0.12:
            # the OVERRIDE itself shows the same wall-clock reading twice
            # (fold 0, then fold 1 or the other way round): two aware
            # datetimes that compare equal and hash alike but are an hour
            # apart - nothing remembered for the first may answer for the
            # second (C12-r9-2)
            zone, u1, u2 = fold_pair(rng)
            if rng.random() < 0.5:
                u1, u2 = u2, u1
            q = rng.choice(('older', 'newer', 'soon'))
            sec = rng.choice((0, 1, 60, 1800, 3599, 3600, 3601, -1800,
                              gen_seconds(rng)))
            dl = ['boundary', rng.choice((0, 1, -1, 1800 * 10 ** 6,
                                          -1800 * 10 ** 6))]
            pres = gen_pres(rng, q != 'soon')
            for u in (u1, u2):
                ops.append(['set', u, ['zone', zone]])
                ops.append([q, list(dl), sec, pres])
                if rng.random() < 0.5:
                    ops.append([rng.choice(('utcnow', 'ts', 'ts_us'))])
        crng = st('clock')
        pat = crng.choice(('tick', 'jump', 'back', 'stall', 'mixed'))
        steps = {'tick': [1, 1000, 10 ** 6], 'jump': [10 ** 12, 1],
                 'back': [-10 ** 6, 5, -1], 'stall': [0],
                 'mixed': [crng.choice((0, 1, -1, 10 ** 6, -10 ** 9,
                                        10 ** 11)) for _ in range(16)]}[pat]
        return {'start': interesting_instant(crng) % (4 * 10 ** 15) +
                10 ** 9, 'pattern': pat, 'steps': steps, 'ops': ops,
                # the process's local time zone: no answer may depend on it
                'tz': crng.choice((None, None, None, 'Asia/Tokyo',
                                   'America/St_Johns', 'Pacific/Chatham'))}

    def execute(self, case):
        log = core.EventLog()
        tu = self.tu
        clock = WallClock(case['start'], case['steps'])
        dshim, tshim = make_shims(clock)
        stats = {'faults': {}, 'probes': {}, 'families': {}, 'sim': {},
                 'distinct': []}
        pr = self._pr = stats['probes']
        self.override_zone = None

        def bump(d, k, v=1):
            d[k] = d.get(k, 0) + v
        viols = []

        def viol(cls, **d):
            if len(viols) < 3:
                viols.append({'cls': cls, 'detail': d})
        old_dt, old_time = tu.datetime, tu.time
        import os as _os
        import time as _rtime
        old_tz = _os.environ.get('TZ')
        if case.get('tz'):
            _os.environ['TZ'] = case['tz']
            _rtime.tzset()
            bump(pr, 'process_local_zone_not_utc')
        tu.datetime, tu.time = dshim, tshim
        tu.clear_time_override()
        # is the wall-clock seam in effect on this tree? (module attributes
        # 'datetime' and 'time' of timeutils; a refactor may import the clock
        # differently - then the un-overridden path is simply not judged)
        self.seam_ok = False
        try:
            m0 = len(clock.log)
            tu.utcnow()
            self.seam_ok = len(clock.log) > m0
        except Exception:
            pass
        if not self.seam_ok:
            bump(pr, 'wall_clock_seam_unavailable')
        model = None        # overridden instant in us, or None
        self.aware_override = False
        fixture = None
        distinct = set()
        try:
            for i, op in enumerate(case['ops']):
                name = op[0]
                mark = len(clock.log)
                try:
                    res = self._do(op, model, clock, fixture)
                except AssertionError:
                    raise
                except Exception as e:
                    viol('unexpected_exception', op=name, index=i,
                         exc=type(e).__name__, msg=str(e)[:200],
                         aware_override=bool(model is not None and
                                             self.aware_override))
                    break
                kind, payload = res
                reads = clock.log[mark:]
                if kind == 'model':
                    if name == 'fixture_down':
                        bump(pr, 'fixture_cleanup_clears')
                    model, fixture = payload
                    log.add(name, model)
                    distinct.add((name, model is None))
                    continue
                if kind == 'skip':
                    continue
                got, want_fn, extra = payload
                now_us = model if model is not None else (
                    reads[-1] if reads else None)
                if model is not None:
                    bump(pr, 'override_active_query')
                    if self.aware_override:
                        bump(pr, 'override_is_aware_datetime')
                    if self.override_zone:
                        bump(pr, 'override_in_named_zone')
                    if reads:
                        # looking at the real clock is not observable: only
                        # the answer counts
                        bump(pr, 'real_clock_read_under_override')
                elif name in QUERY_OPS or name == 'cmp_abs':
                    if not reads:
                        if self.seam_ok:
                            viol('override_still_active', op=name, index=i)
                            break
                        continue
                    bump(pr, 'unoverridden_query')
                ok, want = want_fn(now_us)
                log.add(name, repr(got)[:80], ok)
                for p in extra.get('probes', ()):
                    bump(pr, p)
                distinct.add((name, model is None, extra.get('pk'),
                              extra.get('bc'), str(got)[:5]
                              if isinstance(got, bool) else None))
                if not ok:
                    viol('wrong_' + name, index=i, op=op, got=repr(got),
                         want=repr(want), now_us=now_us,
                         overridden=model is not None,
                         aware_override=bool(model is not None and
                                             self.aware_override))
                    break
        finally:
            tu.clear_time_override()
            tu.datetime, tu.time = old_dt, old_time
            if case.get('tz'):
                if old_tz is None:
                    _os.environ.pop('TZ', None)
                else:
                    _os.environ['TZ'] = old_tz
                _rtime.tzset()
            if fixture is not None:
                try:
                    fixture.cleanUp()
                except Exception:
                    pass
        st = case['steps']
        fa = stats['faults']
        if any(s >= 10 ** 9 for s in st):
            bump(fa, 'wall_clock_jump_forward')
        if any(s < 0 for s in st):
            bump(fa, 'wall_clock_step_backward')
        if any(s == 0 for s in st):
            bump(fa, 'wall_clock_stall')
        bump(stats['families'], case['pattern'])
        stats['sim'] = {'ops': len(case['ops']), 'clock_reads':
                        len(clock.log),
                        'simulated_seconds': clock.advance // 10 ** 6}
        stats['distinct'] = [core._h64(str(x)) for x in sorted(
            distinct, key=str)]
        stats['faulty'] = case['pattern'] in ('back', 'jump', 'mixed',
                                              'stall')
        return {'violations': viols, 'digest': log.digest(), 'stats': stats}

    # one operation --------------------------------------------------------
    def _do(self, op, model, clock, fixture):
        tu = self.tu
        name = op[0]
        if name == 'set':
            self.override_zone = None
            if len(op) > 2:
                tu.set_time_override(present(op[1], op[2]))
                self.aware_override = True
                if op[2][0] == 'zone':
                    self.override_zone = op[2][1]
            else:
                tu.set_time_override(from_us(op[1]))
                self.aware_override = False
            return 'model', (op[1], fixture)
        if name == 'set_default':
            self.aware_override = False
            self.override_zone = None
            mark = len(clock.log)
            tu.set_time_override()
            r = clock.log[mark:]
            return 'model', (r[-1] if r else None, fixture)
        if name == 'fixture_up':
            if fixture is not None:
                fixture.cleanUp()
            self.override_zone = None
            if len(op) > 2:
                f = self.fx.TimeFixture(present(op[1], op[2]))
                self.aware_override = True
                if op[2][0] == 'zone':
                    self.override_zone = op[2][1]
            else:
                f = self.fx.TimeFixture(from_us(op[1]))
                self.aware_override = False
            f.setUp()
            return 'model', (op[1], f)
        if name == 'fixture_down':
            if fixture is None:
                return 'skip', None
            fixture.cleanUp()
            return 'model', (None, None)
        if name == 'clear':
            tu.clear_time_override()
            return 'model', (None, fixture)
        if name in ('adv_delta', 'fx_adv_delta', 'adv_seconds',
                    'fx_adv_seconds'):
            if model is None:
                return 'skip', None
            if name.startswith('fx') and fixture is None:
                return 'skip', None
            if name.endswith('delta'):
                d_us = op[1]
                arg = _dt.timedelta(microseconds=d_us)
                fn = (fixture.advance_time_delta if name.startswith('fx')
                      else tu.advance_time_delta)
            else:
                d_us = seconds_to_us(op[1])
                arg = op[1]
                fn = (fixture.advance_time_seconds if name.startswith('fx')
                      else tu.advance_time_seconds)
            new = model + d_us
            if not (MIN_US <= new <= MAX_US):
                return 'skip', None
            if getattr(self, 'override_zone', None):
                # an aware datetime in a named zone moves on the wall clock
                # when a timedelta is added (Python's arithmetic, not the
                # SUT's): only advances for which that IS the exact move
                # are made
                z = ['zone', self.override_zone]
                wall = present(model, z) + _dt.timedelta(microseconds=d_us)
                if wall.astimezone(UTC).replace(tzinfo=None) != \
                        from_us(new):
                    return 'skip', None
            fn(arg)
            return 'model', (new, fixture)
        # queries ---------------------------------------------------------
        if name == 'utcnow':
            got = tu.utcnow()
            if model is not None and self.aware_override:
                # the override was an aware datetime: whatever form comes
                # back must denote the same instant
                def same(now):
                    g = got
                    if g.tzinfo is not None:
                        g = (g - g.utcoffset()).replace(tzinfo=None)
                    return g == from_us(now), from_us(now)
                return 'q', (got, same, {'pk': 'aware-override'})
            return 'q', (got, lambda now: (
                got == from_us(now) and got.tzinfo is None, from_us(now)),
                {})
        if name == 'utcnow_tz':
            got = tu.utcnow(with_timezone=True)

            def same_tz(now):
                # whatever form comes back denotes the instant; a naive
                # value reads as UTC
                g = got
                if g.tzinfo is not None:
                    g = g.astimezone(UTC).replace(tzinfo=None)
                ok = g == from_us(now)
                if model is None:
                    ok = ok and got.tzinfo is not None and \
                        got.utcoffset() == _dt.timedelta(0)
                return ok, from_us(now)
            return 'q', (got, same_tz, {'pk': 'with_timezone'})
        if name == 'ts':
            got = tu.utcnow_ts()
            if model is None:
                # un-overridden: the shim hands out float seconds
                return 'q', (got, lambda now: (
                    got == int(now / 1e6) and isinstance(got, int),
                    int(now / 1e6)), {})
            return 'q', (got, lambda now: (
                got == now // 10 ** 6 and isinstance(got, int),
                now // 10 ** 6), {})
        if name == 'ts_us':
            got = tu.utcnow_ts(microsecond=True)

            def want(now):
                exact = fractions.Fraction(now, 10 ** 6)
                g = fractions.Fraction(got)
                # float(int seconds) + microsecond/1e6: error bounded by the
                # resolution of the larger operand, not of the result
                tol = fractions.Fraction(math.ulp(
                    max(abs(now // 10 ** 6) + 1.0, 1.0)))
                return abs(g - exact) <= tol, float(exact)
            return 'q', (got, want, {})
        if name == 'marshall_now0':
            if model is not None and self.aware_override:
                return 'skip', None
            got = tu.marshall_now()

            def want(now):
                d = from_us(now)
                w = dict(day=d.day, month=d.month, year=d.year, hour=d.hour,
                         minute=d.minute, second=d.second,
                         microsecond=d.microsecond)
                return got == w, w
            return 'q', (got, want, {})
        if name in ('older', 'newer', 'soon'):
            (dk, dv), s, pres = op[1], op[2], op[3]
            s_us = seconds_to_us(s)
            # peek at "now" without disturbing the SUT's own reads: under an
            # override it is the model; otherwise the next reading
            now_guess = model if model is not None else clock.t
            if dk == 'boundary':
                # t placed exactly on / one microsecond around the boundary
                if name == 'older':
                    t_us = now_guess - s_us + dv
                elif name == 'newer':
                    t_us = now_guess + s_us + dv
                else:
                    t_us = now_guess + s_us + dv
            else:
                t_us = now_guess + dv
            if not (MIN_US <= t_us <= MAX_US):
                return 'skip', None
            if name == 'soon' and not (MIN_US <= now_guess + s_us <= MAX_US):
                # "now + w" is not a representable instant
                return 'skip', None
            if not (MIN_US <= now_guess + s_us <= MAX_US) or \
                    not (MIN_US <= now_guess - s_us <= MAX_US):
                self._pr['margin_reaches_beyond_representable_range'] = \
                    self._pr.get(
                        'margin_reaches_beyond_representable_range', 0) + 1
            arg = present(t_us, pres)
            if name == 'older':
                got = tu.is_older_than(arg, s)
                cmp_ = lambda now: now - t_us > s_us       # noqa: E731
            elif name == 'newer':
                got = tu.is_newer_than(arg, s)
                cmp_ = lambda now: t_us - now > s_us       # noqa: E731
            else:
                got = tu.is_soon(arg, s)
                cmp_ = lambda now: t_us <= now + s_us      # noqa: E731
            probes = []
            if dk == 'boundary':
                probes.append('comparison_at_exact_boundary' if dv == 0
                              else 'comparison_one_us_off')
            if pres[0].startswith('iso'):
                probes.append('iso_string_argument')
            if pres[0] == 'zone':
                probes.append('named_zone_argument')
            return 'q', (got, lambda now: (got is cmp_(now), cmp_(now)),
                         {'probes': probes, 'pk': pres[0],
                          'bc': (dk, dv if dk == 'boundary' else 0,
                                 'int' if isinstance(s, int) else 'frac',
                                 (s > 0) - (s < 0),
                                 pres[1] if len(pres) > 1 and
                                 pres[0] == 'zone' else None)})
        if name == 'cmp_abs':
            which, t_us, sec, pres = op[1], op[2], op[3], op[4]
            s_us = seconds_to_us(sec)
            now_guess = model if model is not None else clock.t
            if not (MIN_US <= now_guess + s_us <= MAX_US) or \
                    not (MIN_US <= now_guess - s_us <= MAX_US):
                return 'skip', None
            arg = present(t_us, pres)
            if which == 'older':
                got = tu.is_older_than(arg, sec)
                cmp_ = lambda now: now - t_us > s_us       # noqa: E731
            elif which == 'newer':
                got = tu.is_newer_than(arg, sec)
                cmp_ = lambda now: t_us - now > s_us       # noqa: E731
            else:
                got = tu.is_soon(arg, sec)
                cmp_ = lambda now: t_us <= now + s_us      # noqa: E731
            return 'q', (got, lambda now: (got is cmp_(now), cmp_(now)),
                         {'probes': ['same_wall_time_both_folds'],
                          'pk': 'zone-fold', 'bc': which})
        # pure clauses ----------------------------------------------------
        if name == 'normalize':
            x = present(op[1], op[2])
            got = tu.normalize_time(x)
            want = from_us(op[1])
            folded = getattr(x, 'fold', 0) == 1
            ok = got == want and got.tzinfo is None
            if op[2][0] == 'naive':
                ok = ok and got == x
            return 'q', (got, lambda now: (ok, want), {
                'pk': op[2][0], 'probes': ['same_wall_time_both_folds']
                if folded else []})
        if name == 'isoparse':
            x = present(op[1], op[2] if op[2][0] != 'zone' else ['fixed', 0])
            if op[2][0] == 'fixedsec':
                # isoformat() writes such offsets as +HH:MM:SS; a parser may
                # decline them (ValueError) - what it must not do is return
                # another instant
                try:
                    got = tu.parse_isotime(x.isoformat())
                except ValueError:
                    return 'q', ('declined', lambda now: (True, x),
                                 {'pk': 'fixedsec',
                                  'probes': ['subminute_offset_declined']})
                ok = got == x
                return 'q', (got, lambda now: (ok, x), {'pk': 'fixedsec'})
            got = tu.parse_isotime(x.isoformat())
            if x.tzinfo is None:
                ok = got.replace(tzinfo=None) == x and \
                    got.utcoffset() == _dt.timedelta(0)
            else:
                ok = got == x and got.utcoffset() == x.utcoffset()
            return 'q', (got, lambda now: (ok, x), {'pk': op[2][0]})
        if name == 'marshall':
            x = present(op[1], op[2])
            m = tu.marshall_now(x)
            got = tu.unmarshall_time(m)
            # the same marshalled form decoded once more (a retry, a second
            # consumer of one message): the inverse holds every time
            got2 = tu.unmarshall_time(m)
            if x.tzinfo is None:
                ok = got == x and got.tzinfo is None
            else:
                ok = (got == x and got.tzinfo is not None and
                      got.utcoffset() == _dt.timedelta(0) and
                      got.replace(tzinfo=None) == x.replace(tzinfo=None))
            if ok and (got2 != got or (got2.tzinfo is None) !=
                       (got.tzinfo is None)):
                ok = False
                got = ('second decode differs', got, got2)
            return 'q', (got, lambda now: (ok, x), {'pk': op[2][0]})
        if name == 'leap':
            d = from_us(op[1])
            tyme = dict(day=d.day, month=d.month, year=d.year, hour=d.hour,
                        minute=d.minute, second=60,
                        microsecond=d.microsecond)
            got = tu.unmarshall_time(tyme)
            want = d.replace(second=59)
            return 'q', (got, lambda now: (got == want, want),
                         {'probes': ['leap_second_capped']})
        raise ValueError(name)

    def finding(self, case, v):
        d = v['detail']
        if d.get('aware_override') and (
                v['cls'] in ('wrong_ts', 'wrong_ts_us') or
                (v['cls'] == 'unexpected_exception' and
                 d.get('exc') == 'TypeError' and
                 d.get('op') in ('older', 'newer', 'soon', 'cmp_abs'))):
            return 'K12'
        return None

    def subkey(self, case, v):
        return v['cls']

    def reducers(self, case):
        ops = case['ops']
        n = len(ops)
        size = n // 2
        while size >= 1:
            for i in range(0, n, size):
                c = copy.deepcopy(case)
                del c['ops'][i:i + size]
                if c['ops']:
                    yield c
            size //= 2
        if case['steps'] != [1]:
            c = copy.deepcopy(case)
            c['steps'] = [1]
            c['pattern'] = 'tick'
            yield c
        if case.get('tz'):
            c = copy.deepcopy(case)
            c['tz'] = None
            yield c
        for i, op in enumerate(ops):
            if len(op) == 4 and op[3] != ['naive']:
                c = copy.deepcopy(case)
                c['ops'][i][3] = ['naive']
                yield c
            if len(op) == 4 and op[2] != 0:
                c = copy.deepcopy(case)
                c['ops'][i][2] = 0
                yield c

    def extra_coverage(self, agg):
        return {'simulated_time_s': agg['sim'].get('simulated_seconds', 0)}


CHECK = C12()
