"""C09 - exception helpers never lose, replace or invent an exception.

Handler programs are executed with the real excutils / fileutils constructs in
1-3 tasks interleaved by a seeded scheduler (greenlets or baton-passed
threads) and compared with a reference interpreter over symbolic exception
labels.
"""
import copy
import errno
import logging
import os
import shutil
import tempfile

from sim import core, tasks
from sim.runner import Check

EXC_KINDS = ('plain', 'args', 'chained', 'old', 'kbi', 'sysexit', 'falsy')
EXC_KINDS_EXCEPTION = ('plain', 'args', 'chained', 'old', 'falsy')


class PlainErr(Exception):
    pass


class ArgsErr(Exception):
    def __init__(self, a, b):
        super().__init__(a, b)
        self.a, self.b = a, b


class FalsyErr(Exception):
    """An aggregate-style error whose instances are falsy when they carry no
    items (it defines __len__): 'if exc:' is not 'if exc is not None:'."""

    def __init__(self, label, items=()):
        super().__init__(label)
        self.items = list(items)

    def __len__(self):
        return len(self.items)


class InnerErr(Exception):
    pass


class NewErr(Exception):
    pass


class NestErr(Exception):
    pass


class RecLogger:
    def __init__(self):
        self.errors = []

    def error(self, msg, *args, **kw):
        self.errors.append((msg, args))

    def _noop(self, *a, **k):
        pass
    debug = info = warning = exception = critical = _noop


class EmptyBufferLogger(RecLogger):
    """A buffering logger: a container of what it has been given, hence
    falsy for as long as it is empty."""

    def __len__(self):
        return len(self.errors)


def tb_sig(tb):
    out = []
    while tb is not None:
        out.append((tb.tb_frame.f_code.co_name, tb.tb_lineno))
        tb = tb.tb_next
    return out


def raise_original(exc, kind):
    """Distinctive innermost frame of the original raise."""
    if kind == 'chained':
        raise exc from ValueError('the cause')
    raise exc


def make_exc(kind, label):
    if kind in ('plain', 'chained'):
        return PlainErr(label)
    if kind == 'args':
        return ArgsErr(label, 2)
    if kind == 'old':
        e = PlainErr(label)
        try:
            raise e
        except PlainErr:
            pass
        return e
    if kind == 'falsy':
        return FalsyErr(label)
    if kind == 'kbi':
        return KeyboardInterrupt(label)
    if kind == 'sysexit':
        return SystemExit(label)
    raise ValueError(kind)


# ------------------------------------------------------------ generation

def gen_prog(rng, depth, maxops):
    n = rng.randint(0, maxops)
    prog = []
    for _ in range(n):
        op = core.weighted(rng, [('nop', 2), ('inner', 3), ('set', 3),
                                 ('yield', 3), ('raise', 1), ('force', 1),
                                 ('nested', 2 if depth < 3 else 0),
                                 ('renest', 1.5 if depth < 3 else 0)])
        if op == 'set':
            prog.append(['set', rng.random() < 0.5])
        elif op == 'force':
            prog.append(['force', rng.random() < 0.5])
            if not prog[-1][1]:
                break
        elif op == 'raise':
            # the new exception may be chained to the original explicitly
            # (raise ... from original / excutils.raise_with_cause)
            prog.append(['raise', core.weighted(rng, [(None, 3),
                                                      ('from_orig', 1),
                                                      ('with_cause', 1)])])
            break
        elif op == 'renest':
            # a second block around the SAME active exception
            prog.append(['renest', rng.random() < 0.7,
                         gen_prog(rng, depth + 1, max(1, maxops // 2)),
                         rng.random() < 0.75])
        elif op == 'nested':
            prog.append(['nested', rng.random() < 0.6,
                         gen_prog(rng, depth + 1, max(1, maxops // 2)),
                         rng.random() < 0.6,
                         rng.choice(EXC_KINDS_EXCEPTION)])
        else:
            prog.append([op])
    return prog


def gen_task(rng, c=None):
    c = c or core.weighted(rng, [('A', 6), ('B', 2), ('C', 4), ('D', 3)])
    if c == 'A':
        return {'c': 'A', 'exc': rng.choice(EXC_KINDS),
                'reraise': rng.random() < 0.7,
                'prog': gen_prog(rng, 1, rng.choice((2, 4, 8, 12))),
                # the documented pattern: leave the block quietly (reraise
                # off) and call force_reraise() on the context afterwards
                'post_force': rng.random() < 0.3,
                # the logger handed in is an (empty, hence falsy) buffer
                'falsy_logger': rng.random() < 0.12,
                # one context object serves two handlers in a row
                'reuse': rng.random() < 0.12}
    if c == 'B':
        return {'c': 'B', 'exc': rng.choice(EXC_KINDS),
                'variant': core.weighted(rng, [('capture_force', 6),
                                               ('capture_nothing', 1),
                                               ('force_nothing', 1)]),
                'between': [[rng.choice(('nop', 'inner', 'yield'))]
                            for _ in range(rng.randint(0, 4))]}
    if c == 'C':
        return {'c': 'C', 'exc': rng.choice(EXC_KINDS),
                'mode': rng.choice(('ctx', 'ctx_noraise', 'call',
                                    'call_other', 'call_outside',
                                    'bound_ctx', 'bound_call',
                                    'decorated_call')),
                'accept': rng.random() < 0.5,
                # the object carrying a method-style filter is a copy of a
                # prototype on which the filter had been looked up before
                'host_copied': rng.random() < 0.2,
                'pre': [[rng.choice(('nop', 'inner', 'yield'))]
                        for _ in range(rng.randint(0, 3))],
                # the hosts compare (and hash) equal although they are two
                # objects with two predicates (value objects: C09-r9-2)
                'host_eq': rng.random() < 0.5}
    return {'c': 'D', 'exc': rng.choice(EXC_KINDS_EXCEPTION),
            'state': rng.choice(('file', 'file', 'missing', 'dir', 'file',
                                 'dangling', 'symlink', 'loop')),
            'remove': core.weighted(rng, [
                ('default', 4), ('custom_ok', 2),
                ('inject', 3), ('param_default', 1), ('backend', 2)]),
            'errno': rng.choice((errno.ENOENT, errno.EACCES, errno.EBUSY,
                                 errno.EISDIR, errno.EIO, errno.EROFS)),
            'body': core.weighted(rng, [('raise', 5), ('ok', 1)]),
            # the remove callback is itself a place where a greenthread can
            # be switched out (it does I/O)
            'rm_yield': rng.random() < 0.5,
            # entered through an ExitStack together with a context manager
            # that translates the exception: __exit__ is then handed an
            # exception that is not the one the interpreter is handling
            'exitstack': rng.random() < 0.2,
            'pre': [[rng.choice(('nop', 'inner', 'yield'))]
                    for _ in range(rng.randint(0, 3))]}


# ------------------------------------------------------------ reference

class Ctx:
    """Reference state of one save_and_reraise_exception block."""

    def __init__(self, orig, reraise):
        self.orig = orig          # label of the original
        self.r = reraise
        self.forced = 0           # times force_reraise was called directly
        self.logs = 0
        self.k9 = False
        self.touched = False      # the original's traceback was extended by
        #                           a nested re-raise of the same object
        self.normal_exit = False  # re-raised by completing the body


def ref_body(ctx, prog, labels, ctxs, path):
    """Symbolic execution. Returns None (body completed) or a label (the
    exception leaving the body). labels: allocator of new labels."""
    for j, op in enumerate(prog):
        name = op[0]
        if name == 'set':
            ctx.r = op[1]
        elif name == 'raise':
            return labels.new('new', path + [j])
        elif name == 'force':
            ctx.forced += 1
            if ctx.forced > 1:
                ctx.k9 = True
            if not op[1]:
                return ctx.orig
        elif name == 'renest':
            _n, r0, sub, caught = op
            c2 = Ctx(ctx.orig, r0)
            ctxs.append(c2)
            ctx.touched = True
            out = ref_block(c2, sub, labels, ctxs, path + [j])
            if out is not None and not caught:
                return out
        elif name == 'nested':
            _n, r0, sub, caught, _kind = op
            n0 = labels.new('nest', path + [j])
            c2 = Ctx(n0, r0)
            ctxs.append(c2)
            out = ref_block(c2, sub, labels, ctxs, path + [j])
            if out is not None and not caught:
                return out
    return None


def ref_block(ctx, prog, labels, ctxs, path):
    """with save_and_reraise_exception(...) as ctx: prog  ->  label|None"""
    out = ref_body(ctx, prog, labels, ctxs, path)
    if out is not None:
        if ctx.r:
            ctx.logs += 1
        return out
    if ctx.r:
        if ctx.forced:
            ctx.k9 = True
        ctx.normal_exit = True
        return ctx.orig
    return None


class Labels:
    def __init__(self, task):
        self.task = task
        self.seq = 0

    def new(self, kind, path):
        self.seq += 1
        return '%s:%s:%s' % (self.task, kind, '.'.join(map(str, path)))


# ------------------------------------------------------------ real side

class Real:
    """Executes one task spec with the real constructs."""

    def __init__(self, tid, spec, excutils, fileutils, workdir, shared=None):
        self.shared = shared
        self.tid = tid
        self.spec = spec
        self.ex = excutils
        self.fu = fileutils
        self.work = workdir
        self.objs = {}          # label -> exception object
        self.loggers = []       # RecLogger per ctx in creation order
        self.forced = []        # results of caught force_reraise calls
        self.result = None
        self.notes = {}

    def ops(self, prog, yield_fn):
        for op in prog:
            if op[0] == 'inner':
                try:
                    raise InnerErr('inner')
                except InnerErr:
                    pass
            elif op[0] == 'yield':
                yield_fn()

    def body(self, ctx, prog, yield_fn, path, orig):
        for j, op in enumerate(prog):
            name = op[0]
            if name == 'nop':
                pass
            elif name == 'inner':
                try:
                    raise InnerErr('inner')
                except InnerErr:
                    pass
            elif name == 'yield':
                yield_fn()
            elif name == 'set':
                ctx.reraise = op[1]
            elif name == 'raise':
                lab = '%s:new:%s' % (self.tid, '.'.join(map(str, path + [j])))
                how = op[1] if len(op) > 1 else None
                if how == 'with_cause':
                    class NewCaused(self.ex.CausedByException):
                        pass
                    try:
                        self.ex.raise_with_cause(NewCaused, lab)
                    except NewCaused as e:
                        self.objs[lab] = e
                        raise
                e = NewErr(lab)
                self.objs[lab] = e
                if how == 'from_orig':
                    raise e from orig
                raise e
            elif name == 'force':
                if op[1]:
                    try:
                        ctx.force_reraise()
                    except BaseException as e:
                        self.forced.append((e is orig, type(e).__name__))
                else:
                    ctx.force_reraise()
            elif name == 'renest':
                _n, r0, sub, caught = op
                lg = RecLogger()
                self.loggers.append(lg)
                try:
                    with self.ex.save_and_reraise_exception(
                            reraise=r0, logger=lg) as c2:
                        self.body(c2, sub, yield_fn, path + [j], orig)
                except BaseException:
                    if not caught:
                        raise
            elif name == 'nested':
                _n, r0, sub, caught, kind = op
                lab = '%s:nest:%s' % (self.tid,
                                      '.'.join(map(str, path + [j])))
                n0 = make_exc(kind, lab)
                self.objs[lab] = n0
                lg = RecLogger()
                self.loggers.append(lg)
                try:
                    try:
                        raise_original(n0, kind)
                    except BaseException:
                        with self.ex.save_and_reraise_exception(
                                reraise=r0, logger=lg) as c2:
                            self.body(c2, sub, yield_fn, path + [j], n0)
                except BaseException:
                    if not caught:
                        raise

    def run(self, yield_fn):
        getattr(self, 'run_' + self.spec['c'])(yield_fn)

    def run_A(self, yield_fn):
        s = self.spec
        lab = '%s:orig' % self.tid
        e0 = make_exc(s['exc'], lab)
        self.objs[lab] = e0
        lg = EmptyBufferLogger() if s.get('falsy_logger') else RecLogger()
        self.loggers.append(lg)
        cm = None
        if s.get('reuse'):
            # an earlier handler used the same context object and left its
            # block quietly
            cm = self.ex.save_and_reraise_exception(reraise=False, logger=lg)
            try:
                raise InnerErr('earlier')
            except InnerErr:
                with cm:
                    pass
            cm.reraise = s['reraise']
            self.notes['reused'] = True
        try:
            try:
                raise_original(e0, s['exc'])
            except BaseException as caught:
                self.notes['orig_tb'] = tb_sig(caught.__traceback__)
                if cm is None:
                    cm = self.ex.save_and_reraise_exception(
                        reraise=s['reraise'], logger=lg)
                with cm as ctx:
                    self.body(ctx, s['prog'], yield_fn, [], e0)
                if s.get('post_force'):
                    self.notes['post_forced'] = True
                    ctx.force_reraise()
            self.result = ('none',)
        except BaseException as e:
            self.result = ('raised', e, tb_sig(e.__traceback__))

    def run_B(self, yield_fn):
        s = self.spec
        lab = '%s:orig' % self.tid
        e0 = make_exc(s['exc'], lab)
        self.objs[lab] = e0
        ctx = self.ex.save_and_reraise_exception(logger=RecLogger())
        try:
            if s['variant'] == 'capture_nothing':
                ctx.capture()
                self.result = ('none',)
                return
            if s['variant'] == 'force_nothing':
                ctx.force_reraise()
                self.result = ('none',)
                return
            try:
                raise_original(e0, s['exc'])
            except BaseException as caught:
                self.notes['orig_tb'] = tb_sig(caught.__traceback__)
                r = ctx.capture()
                self.notes['capture_returns_self'] = r is ctx
            self.ops(s['between'], yield_fn)
            ctx.force_reraise()
            self.result = ('none',)
        except BaseException as e:
            self.result = ('raised', e, tb_sig(e.__traceback__))

    def run_C(self, yield_fn):
        s = self.spec
        lab = '%s:orig' % self.tid
        e0 = make_exc(s['exc'], lab)
        self.objs[lab] = e0
        calls = []
        accept = s['accept']
        ef = self.ex.exception_filter

        def pred(ex):
            calls.append(ex)
            return accept

        class Holder:
            def __init__(self):
                self.seen = []

            if s.get('host_eq'):
                def __eq__(self_, o):
                    return type(o) is type(self_)

                def __hash__(self_):
                    return 7

            @ef
            def ignore(self_, ex):
                self_.seen.append(ex)
                calls.append(ex)
                return self_.accept
        mode = s['mode']
        holder = Holder()
        holder.accept = accept
        if s.get('host_copied') and mode.startswith('bound'):
            import copy as _copy
            proto = holder
            proto.accept = not accept      # the prototype says the opposite
            proto.ignore                   # looked up once on the prototype
            holder = _copy.copy(proto)
            holder.accept = accept
            holder.seen = []
            self.notes['host_copied'] = True
            if s.get('host_eq'):
                self.notes['host_eq'] = True
                self.keep = proto          # the prototype stays alive
        if mode.startswith('bound'):
            filt = holder.ignore
        elif mode == 'decorated_call':
            @ef
            def filt(ex):
                calls.append(ex)
                return accept
        else:
            filt = ef(pred)
        other = PlainErr('%s:other' % self.tid)
        self.objs['%s:other' % self.tid] = other
        if s.get('shared') and self.shared is not None:
            # one filter object used by several tasks at once (a module-level
            # decorated function): the verdict travels with the exception
            e0._verif_accept = accept
            other._verif_accept = accept
            filt = (self.shared['holder'].ignore if mode.startswith('bound')
                    else self.shared['filt'])
            calls = self.shared['calls']
        try:
            if mode in ('ctx', 'bound_ctx'):
                with filt:
                    self.ops(s['pre'], yield_fn)
                    raise_original(e0, s['exc'])
            elif mode == 'ctx_noraise':
                with filt:
                    self.ops(s['pre'], yield_fn)
            elif mode in ('call', 'bound_call', 'decorated_call'):
                try:
                    raise_original(e0, s['exc'])
                except BaseException as ex:
                    self.notes['orig_tb'] = tb_sig(ex.__traceback__)
                    self.ops(s['pre'], yield_fn)
                    filt(ex)
            elif mode == 'call_other':
                try:
                    raise_original(e0, s['exc'])
                except BaseException:
                    self.ops(s['pre'], yield_fn)
                    filt(other)
            elif mode == 'call_outside':
                self.ops(s['pre'], yield_fn)
                filt(other)
            self.result = ('none',)
        except BaseException as e:
            self.result = ('raised', e, tb_sig(e.__traceback__))
        if s.get('shared') and self.shared is not None:
            mine = (e0, other)
            calls = [x for x in calls if any(x is m for m in mine)]
        self.notes['pred_calls'] = calls

    def run_D(self, yield_fn):
        s = self.spec
        lab = '%s:orig' % self.tid
        e0 = make_exc(s['exc'], lab)
        self.objs[lab] = e0
        path = os.path.join(self.work, 't%s' % self.tid)
        if s['state'] == 'file':
            with open(path, 'w') as f:
                f.write('x')
        elif s['state'] == 'dir':
            os.makedirs(path)
        elif s['state'] == 'dangling':
            # what is left when the block fails between creating a link and
            # writing what it points to
            os.symlink(path + '.staged-not-yet-written', path)
        elif s['state'] == 'symlink':
            with open(path + '.target', 'w') as f:
                f.write('x')
            os.symlink(path + '.target', path)
        elif s['state'] == 'loop':
            os.symlink(path, path)
        calls = []
        rm_err = OSError(s['errno'], 'injected', path)
        self.objs['%s:rm' % self.tid] = rm_err

        def custom_ok(p):
            calls.append(p)
            if s.get('rm_yield'):
                yield_fn()
            os.unlink(p)

        def inject(p):
            calls.append(p)
            if s.get('rm_yield'):
                yield_fn()
            raise rm_err

        class BackendError(OSError):
            pass

        def backend_unlink(p):
            # a storage backend's remover: reports "already gone" with its
            # own OSError subclass that carries ENOENT
            calls.append(p)
            if s.get('rm_yield'):
                yield_fn()
            if not os.path.lexists(p):
                raise BackendError(errno.ENOENT, 'no such object', p)
            os.unlink(p)
        try:
            if s['remove'] == 'default':
                cm = self.fu.remove_path_on_error(path)
            elif s['remove'] == 'param_default':
                cm = self.fu.remove_path_on_error(
                    path, remove=self.fu.delete_if_exists)
            elif s['remove'] == 'custom_ok':
                cm = self.fu.remove_path_on_error(path, remove=custom_ok)
            elif s['remove'] == 'backend':
                cm = self.fu.remove_path_on_error(
                    path, remove=lambda p: self.fu.delete_if_exists(
                        p, remove=backend_unlink))
            else:
                cm = self.fu.remove_path_on_error(path, remove=inject)
            if s.get('exitstack') and s['body'] == 'raise':
                import contextlib
                translated = NewErr('%s:translated' % self.tid)
                self.objs['%s:translated' % self.tid] = translated

                @contextlib.contextmanager
                def translating():
                    try:
                        yield
                    except Exception as inner:
                        raise translated from inner
                self.notes['translated'] = True
                with contextlib.ExitStack() as stack:
                    stack.enter_context(cm)
                    stack.enter_context(translating())
                    self.ops(s['pre'], yield_fn)
                    self.notes['raised'] = True
                    raise_original(e0, s['exc'])
            else:
                with cm:
                    self.ops(s['pre'], yield_fn)
                    if s['body'] == 'raise':
                        self.notes['raised'] = True
                        raise_original(e0, s['exc'])
            self.result = ('none',)
        except BaseException as e:
            self.result = ('raised', e, tb_sig(e.__traceback__))
        self.notes['rm_calls'] = calls
        self.notes['path'] = path
        self.notes['exists_after'] = os.path.lexists(path)


# directory entries that os.unlink removes (whatever a link points to)
FILEISH = ('file', 'dangling', 'symlink', 'loop')


def tb_endswith(full, suffix):
    """The innermost frames of `full` are those of `suffix` (function names;
    line numbers for all but the outermost frame of the suffix)."""
    if not suffix:
        return True
    if len(full) < len(suffix):
        return False
    tail = full[-len(suffix):]
    if [f for f, _l in tail] != [f for f, _l in suffix]:
        return False
    return tail[1:] == suffix[1:]


class C09(Check):
    ID = 'C09'
    LEVEL = 'exploration'
    RUNS = {'quick': 80000, 'thorough': 5000000}
    BLOCK = 200
    RULE = ('each run: 1-3 tasks, each a handler program around one '
            'construct (save_and_reraise_exception as context manager with '
            'a generated body over {no-op, raise-and-catch inner, set '
            'reraise, nested block, raise new, force_reraise caught or not, '
            'yield}; manual capture()/force_reraise(); exception_filter as '
            'context manager / direct call / bound method / decorator; '
            'remove_path_on_error with real or failing removers that may '
            'themselves be switched out) x '
            'exception classes (plain, mandatory constructor args, chained, '
            'already carrying a traceback, falsy instances, '
            'KeyboardInterrupt, SystemExit) '
            'interleaved at yield points by the seeded scheduler (greenlets, '
            'baton-passed threads, or baton-passed threads that are '
            'additionally pre-empted at seeded line events inside excutils.py '
            '/ fileutils.py); exception_filter objects may be shared between '
            'tasks. distinct = distinct (construct, '
            'program shape, exception kind, outcome, engine, interleaved?) '
            'tuples')
    COMPONENTS = {
        'real': ['oslo_utils.excutils.save_and_reraise_exception, '
                 'exception_filter', 'oslo_utils.fileutils.'
                 'remove_path_on_error, delete_if_exists',
                 'CPython exception machinery', 'greenlet', 'threading'],
        'stub': ['logger', 'remove function (injected errno)', 'task '
                 'scheduler (who runs next at every yield point)'],
        'partly_real': ['file system: scratch directory for '
                        'remove_path_on_error'],
    }
    ASSUMPTIONS = ['only unambiguous API uses are generated (capture() is '
                   'not called while another exception is active in a with '
                   'body; remove_path_on_error bodies raise Exception '
                   'subclasses)',
                   'greenlet saves/restores the interpreter exception state '
                   'per greenlet']
    FAULT_KINDS = ('exception_in_handler_body', 'inner_exception_caught',
                   'task_switch_in_handler', 'preemption_inside_construct',
                   'remover_fails',
                   'reraise_toggled', 'force_reraise_direct')
    PROBES = ('original_reraised_same_object', 'new_exception_replaces',
              'reraise_off_nothing_raised', 'nested_block',
              'filter_suppressed', 'filter_propagated', 'interleaved_tasks',
              'logged_original_dropped', 'k9_shape',
              'second_block_on_same_exception',
              'traceback_prefix_compared',
              'filter_object_shared_between_tasks')

    def setup(self):
        core.import_sut()
        from oslo_utils import excutils, fileutils
        self.ex = excutils
        self.fu = fileutils
        self.work = None

    def _workdir(self):
        return core.scratch_dir('c09')

    def gen(self, st, tier, index, total):
        rng = st('tasks')
        n = core.weighted(rng, [(1, 5), (2, 3), (3, 2)])
        if n > 1 and rng.random() < 0.3:
            # all tasks use the same construct: state that a construct shares
            # between its users (class / module level) is then contended
            c = core.weighted(rng, [('A', 3), ('B', 1), ('C', 2), ('D', 3)])
            tl = [gen_task(rng, c) for _ in range(n)]
        else:
            tl = [gen_task(rng) for _ in range(n)]
        engine = st('engine').choice(('greenlet', 'thread', 'greenlet',
                                      'plain', 'preempt'))
        cs = [t for t in tl if t['c'] == 'C']
        if len(cs) >= 2 and rng.random() < 0.6:
            same = rng.choice((None, None, 'ctx', 'bound_ctx', 'call',
                               'bound_call'))
            for t in cs:
                t['shared'] = True
                if same:
                    t['mode'] = same
            # races on a shared object need pre-emption inside the construct
            if st('engine').random() < 0.7:
                engine = 'preempt'
        return {'engine': engine, 'tasks': tl,
                'sched_seed': st('sched').randrange(1 << 30)}

    def execute(self, case):
        import random
        log = core.EventLog()
        stats = {'faults': {}, 'probes': {}, 'families': {}, 'sim': {},
                 'distinct': []}
        fa, pr = stats['faults'], stats['probes']

        def bump(d, k, v=1):
            d[k] = d.get(k, 0) + v
        viols = []
        work = os.path.join(self._workdir(), 'w')
        shutil.rmtree(work, ignore_errors=True)
        os.makedirs(work)
        # root logger: remove_path_on_error logs there
        root = logging.getLogger()
        rootrec = []

        class H(logging.Handler):
            def emit(self, record):
                rootrec.append(record)
        h = H(level=logging.ERROR)
        old_handlers = root.handlers[:]
        root.handlers[:] = [h]
        shared = None
        if any(t.get('shared') for t in case['tasks']):
            shared_calls = []
            ef = self.ex.exception_filter

            def shared_pred(ex):
                shared_calls.append(ex)
                return getattr(ex, '_verif_accept', False)

            class SharedHolder:
                @ef
                def ignore(self_, ex):
                    shared_calls.append(ex)
                    return getattr(ex, '_verif_accept', False)
            shared = {'filt': ef(shared_pred), 'holder': SharedHolder(),
                      'calls': shared_calls}
            bump(pr, 'filter_object_shared_between_tasks')
        reals = [Real(str(i), s, self.ex, self.fu, work, shared)
                 for i, s in enumerate(case['tasks'])]
        trace = []
        try:
            st_ = tasks.run_tasks(case['engine'],
                                  [r.run for r in reals],
                                  random.Random(case['sched_seed']), trace,
                                  files=('oslo_utils/excutils.py',
                                         'oslo_utils/fileutils.py'))
            if st_ and st_.get('preemptions'):
                bump(fa, 'preemption_inside_construct', st_['preemptions'])
        finally:
            root.handlers[:] = old_handlers
            shutil.rmtree(work, ignore_errors=True)
        switches = sum(1 for a, b in zip(trace, trace[1:]) if a != b)
        if switches:
            bump(pr, 'interleaved_tasks')
            bump(fa, 'task_switch_in_handler', switches)
        bump(stats['families'], case['engine'])
        stats['sim'] = {'scheduler_steps': len(trace), 'tasks': len(reals)}
        log.add('trace', trace)
        expected_root_logs = 0
        for r in reals:
            v, nlog = self.judge(r, bump, fa, pr)
            expected_root_logs += nlog
            res = r.result
            log.add('task', r.tid, r.spec['c'], res[0],
                    None if res[0] == 'none' else type(res[1]).__name__,
                    [len(lg.errors) for lg in r.loggers], [x['cls'] for x
                                                           in v])
            for x in v:
                x['detail']['task'] = r.tid
                x['detail']['construct'] = r.spec['c']
                x['detail']['engine'] = case['engine']
                x['detail']['interleaved'] = switches > 0
            viols.extend(v)
            stats['distinct'].append(core._h64(core.canon(
                [r.spec['c'], self._shape(r.spec), r.spec.get('exc'),
                 res[0], case['engine'], switches > 0])))
        n_root = len([x for x in rootrec
                      if 'Original exception being dropped' in str(x.msg)])
        if n_root != expected_root_logs:
            viols.append({'cls': 'root_log_count', 'detail': {
                'got': n_root, 'want': expected_root_logs,
                'construct': 'D'}})
        stats['faulty'] = bool(fa)
        return {'violations': viols[:3], 'digest': log.digest(),
                'stats': stats}

    @staticmethod
    def _shape(spec):
        def sh(p):
            return [o[0] if o[0] not in ('nested', 'renest')
                    else [o[0], sh(o[2])] for o in p]
        if spec['c'] == 'A':
            return sh(spec['prog'])
        if spec['c'] == 'B':
            return [spec['variant'], len(spec['between'])]
        if spec['c'] == 'C':
            return [spec['mode'], spec['accept']]
        return [spec['state'], spec['remove'], spec['body']]

    # ------------------------------------------------------------------
    def judge(self, r, bump, fa, pr):
        """-> (violations, expected root-logger records)"""
        viols = []

        def viol(cls, **d):
            viols.append({'cls': cls, 'detail': d})
        s = r.spec
        res = r.result
        tid = r.tid
        orig = r.objs.get('%s:orig' % tid)

        def expect(label, k9=False, check_tb=True, prefix_ref=None):
            """label None: nothing raised; else that object must come out."""
            if label is None:
                if res[0] != 'none':
                    viol('unexpected_exception_raised',
                         got=type(res[1]).__name__, msg=str(res[1])[:100])
                return
            want = r.objs.get(label)
            if res[0] == 'none':
                viol('exception_lost', want=label)
                return
            if res[1] is not want:
                viol('exception_replaced', want=label,
                     got=type(res[1]).__name__, got_msg=str(res[1])[:100],
                     same_type=type(res[1]) is type(want), k9=k9)
                return
            if label.endswith(':orig') and check_tb and \
                    'orig_tb' in r.notes:
                if not tb_endswith(res[2], r.notes['orig_tb']):
                    viol('original_traceback_lost', got=res[2][-4:],
                         want=r.notes['orig_tb'])
                elif prefix_ref is not None:
                    # what precedes the original frames must be exactly the
                    # frames the re-raise itself adds (measured on this tree
                    # with an empty handler body)
                    bump(pr, 'traceback_prefix_compared')
                    n0 = len(r.notes['orig_tb'])
                    got = [f for f, _l in res[2][:len(res[2]) - n0]]
                    if got != prefix_ref:
                        viol('traceback_not_the_original_one', extra=got,
                             expected_prefix=prefix_ref)
        nlog = 0
        if s['c'] == 'A':
            labels = Labels(tid)
            ctxs = [Ctx('%s:orig' % tid, s['reraise'])]
            out = ref_block(ctxs[0], s['prog'], labels, ctxs, [])
            k9 = any(c.k9 for c in ctxs)
            if k9:
                bump(pr, 'k9_shape')
            self._count(s['prog'], bump, fa, pr)
            if out is None:
                bump(pr, 'reraise_off_nothing_raised')
            elif out.endswith(':orig'):
                bump(pr, 'original_reraised_same_object')
            else:
                bump(pr, 'new_exception_replaces')
            pref = None
            if out is not None and out.endswith(':orig') and \
                    ctxs[0].normal_exit and not k9:
                pref = self._prefix_ref('A')
            if out is None and r.notes.get('post_forced'):
                # left quietly, then force_reraise() on the context: the
                # original object with the traceback of its original raise
                # (unless the body had already forced it: K9 territory)
                if not ctxs[0].forced:
                    bump(pr, 'force_reraise_after_quiet_block')
                    expect('%s:orig' % tid)
            else:
                expect(out, k9=k9, prefix_ref=pref)
            # logging, per block in creation order
            got_logs = [len(lg.errors) for lg in r.loggers]
            want_logs = [c.logs for c in ctxs]
            forced_any = any(c.forced for c in ctxs)
            if not forced_any and got_logs != want_logs:
                viol('logging_mismatch', got=got_logs, want=want_logs)
            if sum(want_logs):
                bump(pr, 'logged_original_dropped')
            if not forced_any:
                for lg, c in zip(r.loggers, ctxs):
                    for (_msg, args) in lg.errors:
                        txt = ''.join(args[0]) if args and isinstance(
                            args[0], (list, tuple)) else str(args)
                        if c.orig not in txt:
                            viol('log_does_not_mention_original',
                                 original=c.orig, text=txt[-200:])
            for same, tname in r.forced:
                if not same and not k9:
                    viol('force_reraise_raised_other', got=tname)
        elif s['c'] == 'B':
            if s['variant'] == 'capture_force':
                expect('%s:orig' % tid, prefix_ref=self._prefix_ref('B'))
                if r.notes.get('capture_returns_self') is False:
                    viol('capture_does_not_return_self')
                bump(pr, 'original_reraised_same_object')
            else:
                if res[0] != 'raised' or not isinstance(res[1],
                                                        RuntimeError):
                    viol('misuse_not_runtimeerror', variant=s['variant'],
                         got=res[0])
        elif s['c'] == 'C':
            mode = s['mode']
            calls = r.notes.get('pred_calls', [])
            other = r.objs.get('%s:other' % tid)
            if mode == 'ctx_noraise':
                expect(None)
                if calls:
                    viol('predicate_called_without_exception')
            else:
                subject = other if mode in ('call_other',
                                            'call_outside') else orig
                if len(calls) != 1 or calls[0] is not subject:
                    viol('predicate_not_called_with_exception',
                         ncalls=len(calls))
                if s['accept']:
                    bump(pr, 'filter_suppressed')
                    expect(None)
                else:
                    bump(pr, 'filter_propagated')
                    if subject is orig:
                        expect('%s:orig' % tid)
                    else:
                        expect('%s:other' % tid)
        else:
            raised = s['body'] == 'raise'
            # what the context manager was handed: the original, or what a
            # later context manager of the same ExitStack made of it
            dlabel = ('%s:translated' % tid if r.notes.get('translated')
                      else '%s:orig' % tid)
            if r.notes.get('translated'):
                bump(pr, 'exit_called_with_translated_exception')
            calls = r.notes.get('rm_calls', [])
            exists = r.notes.get('exists_after')
            if not raised:
                expect(None)
                if calls or (s['state'] in FILEISH and not exists):
                    viol('path_removed_without_error')
            else:
                bump(fa, 'exception_in_handler_body')
                rm = s['remove']
                if rm == 'inject':
                    bump(fa, 'remover_fails')
                    expect('%s:rm' % tid)
                    nlog = 1
                    if calls != [r.notes['path']]:
                        viol('remover_not_called_once', calls=len(calls))
                elif rm == 'custom_ok':
                    if s['state'] in FILEISH:
                        expect(dlabel)
                        if exists:
                            viol('path_not_removed')
                        if calls != [r.notes['path']]:
                            viol('remover_not_called_once', calls=len(calls))
                    else:
                        # custom remover itself fails (ENOENT / EISDIR)
                        nlog = 1
                        if res[0] != 'raised' or not isinstance(res[1],
                                                                OSError):
                            viol('remover_failure_not_propagated',
                                 got=res[0])
                else:
                    if rm == 'backend' and s['state'] == 'missing':
                        bump(pr, 'backend_reports_enoent_its_own_way')
                    if s['state'] in FILEISH + ('missing',):
                        expect(dlabel)
                        if exists:
                            viol('path_not_removed')
                        bump(pr, 'original_reraised_same_object')
                    else:
                        nlog = 1
                        bump(fa, 'remover_fails')
                        if res[0] != 'raised' or not isinstance(
                                res[1], OSError) or res[1] is orig:
                            viol('remover_failure_not_propagated',
                                 got=res[0])
        return viols, nlog

    def _prefix_ref(self, construct):
        """Names of the frames a plain re-raise adds in front of the original
        traceback on the current tree (empty handler body)."""
        cache = self.__dict__.setdefault('_pref', {})
        if construct not in cache:
            spec = {'A': {'c': 'A', 'exc': 'plain', 'reraise': True,
                          'prog': []},
                    'B': {'c': 'B', 'exc': 'plain',
                          'variant': 'capture_force', 'between': []}}[
                              construct]
            r = Real('ref', spec, self.ex, self.fu, None)
            r.run(lambda: None)
            res = r.result
            if res[0] != 'raised' or 'orig_tb' not in r.notes or \
                    not tb_endswith(res[2], r.notes['orig_tb']):
                cache[construct] = None
            else:
                n0 = len(r.notes['orig_tb'])
                cache[construct] = [f for f, _l in res[2][:len(res[2]) - n0]]
        return cache[construct]

    def _count(self, prog, bump, fa, pr):
        for op in prog:
            if op[0] == 'inner':
                bump(fa, 'inner_exception_caught')
            elif op[0] == 'set':
                bump(fa, 'reraise_toggled')
            elif op[0] == 'raise':
                bump(fa, 'exception_in_handler_body')
            elif op[0] == 'force':
                bump(fa, 'force_reraise_direct')
            elif op[0] in ('nested', 'renest'):
                bump(pr, 'nested_block' if op[0] == 'nested'
                     else 'second_block_on_same_exception')
                self._count(op[2], bump, fa, pr)

    # ------------------------------------------------------------------
    def finding(self, case, v):
        d = v['detail']
        if d.get('construct') == 'A' and v['cls'] in (
                'exception_replaced', 'unexpected_exception_raised') and \
                d.get('k9'):
            return 'K9'
        return None

    def subkey(self, case, v):
        return v['detail'].get('construct')

    def reducers(self, case):
        if len(case['tasks']) > 1:
            for i in range(len(case['tasks'])):
                c = copy.deepcopy(case)
                del c['tasks'][i]
                yield c
        if case['engine'] != 'plain':
            c = copy.deepcopy(case)
            c['engine'] = 'plain'
            yield c
        for ti, t in enumerate(case['tasks']):
            if t['c'] == 'A':
                for c in self._prog_reductions(case, ti, t['prog'], []):
                    yield c
            if t.get('shared'):
                c = copy.deepcopy(case)
                for t2 in c['tasks']:
                    t2.pop('shared', None)
                yield c
            for key in ('between', 'pre'):
                if t.get(key):
                    c = copy.deepcopy(case)
                    c['tasks'][ti][key] = []
                    yield c
            if t.get('exc') not in ('plain', None):
                c = copy.deepcopy(case)
                c['tasks'][ti]['exc'] = 'plain'
                yield c

    def _prog_reductions(self, case, ti, prog, path):
        for j in range(len(prog)):
            c = copy.deepcopy(case)
            p = c['tasks'][ti]['prog']
            for k in path:
                p = p[k][2]
            del p[j]
            yield c
        for j, op in enumerate(prog):
            if op[0] in ('nested', 'renest'):
                for c in self._prog_reductions(case, ti, op[2], path + [j]):
                    yield c

    def extra_coverage(self, agg):
        return {'engines': {k: v for k, v in agg['families'].items()}}


CHECK = C09()
