"""C13 - StopWatch obeys its state machine under every call sequence.

Simulated monotonic clock behind the documented seam ``timeutils.now``; call
histories are executed against the real StopWatch and a reference state
machine that is fed the clock readings handed out during each call.
"""
import copy

from sim import core
from sim.runner import Check

Q = 2.0 ** -10
OPS = ('start', 'stop', 'resume', 'restart', 'split', 'elapsed', 'leftover',
       'expired', 'has_started', 'has_stopped', 'splits', 'enter', 'exit')
DURATIONS = (None, 0, Q, 1, 1000000)
PATTERNS = ('zero', 'tiny', 'one', 'large', 'backwards', 'mixed',
            'mixed_fwd')
MAXIMA = (None, None, 0, Q, 1, 5, 1000000)

# Sweep layer (declared smoke layer, like C01's engine sweep): EVERY call
# sequence up to a small length over this alphabet, the first runs of a batch.
SWEEP_ALPHA = tuple([o, None] for o in OPS) + (['elapsed', 1], ['leftover', True])
NA = len(SWEEP_ALPHA)
# (max length crossed with all five durations, max length with one seeded
# duration); the clock pattern is seeded per run in both parts
SWEEP = {'quick': (4, 4), 'thorough': (5, 6)}


def _nseq(lmax):
    return sum(NA ** k for k in range(1, lmax + 1))


def sweep_total(tier):
    full, deep = SWEEP[tier]
    return _nseq(full) * len(DURATIONS) + (_nseq(deep) - _nseq(full))


def sweep_case(tier, index):
    """index -> (ops, duration or 'seeded')."""
    full, deep = SWEEP[tier]
    nfull = _nseq(full)
    if index < nfull * len(DURATIONS):
        dur = DURATIONS[index % len(DURATIONS)]
        k = index // len(DURATIONS)
    else:
        dur = 'seeded'
        k = nfull + (index - nfull * len(DURATIONS))
    ln = 1
    while k >= NA ** ln:
        k -= NA ** ln
        ln += 1
    ops = []
    for _ in range(ln):
        ops.append(list(SWEEP_ALPHA[k % NA]))
        k //= NA
    ops.reverse()
    return ops, dur


class ClockFault(Exception):
    """The simulated clock source failed (not a RuntimeError: it must not be
    mistaken for the watch rejecting a call)."""


def clock_numbers(ctype, steps):
    """(first reading, steps) in the number type the clock hands out: floats
    (time.monotonic), large integers (a nanosecond counter months after
    boot: beyond 2**53 not every integer is a float), exact fractions,
    decimals."""
    if ctype == 'bigint':
        return 2 ** 60 + 1, [int(s) if abs(s) >= 1 else
                             (1 if s > 0 else -1 if s < 0 else 0)
                             for s in steps]
    if ctype == 'fraction':
        import fractions
        return (fractions.Fraction(1024) + fractions.Fraction(1, 3),
                [fractions.Fraction(s) for s in steps])
    if ctype == 'decimal':
        import decimal
        return (decimal.Decimal(1024) + decimal.Decimal('0.1'),
                [decimal.Decimal(s) for s in steps])
    return 1024.0, steps


class SimClock:
    fail_next = False
    fired = False

    def __init__(self, pattern, steps, ctype=None):
        self.t, steps = clock_numbers(ctype, steps)
        self.steps = steps
        self.k = 0
        self.log = []
        self.went_back = False
        self.total_advance = 0.0

    def _step(self):
        s = self.steps[self.k % len(self.steps)] if self.steps else 0
        self.k += 1
        if s < 0:
            self.went_back = True
        else:
            self.total_advance += float(s)
        self.t += s

    def read(self):
        if self.fail_next:
            self.fail_next = False
            self.fired = True
            raise ClockFault('simulated clock failure')
        v = self.t
        self.log.append(v)
        self._step()
        return v

    def between(self):
        self._step()


def gen_steps(rng, pattern):
    n = 64
    if pattern == 'zero':
        return [0]
    if pattern == 'tiny':
        return [Q]
    if pattern == 'one':
        return [1.0]
    if pattern == 'large':
        return [1000000.0]
    if pattern == 'backwards':
        return [rng.choice((-1.0, -Q, 1.0, Q, 0, -5.0, 3.0))
                for _ in range(n)]
    if pattern == 'mixed_fwd':
        return [rng.choice((0, 0, Q, 3 * Q, 1.0, 0.5, 1000000.0, 7.25))
                for _ in range(n)]
    return [rng.choice((0, Q, 1.0, 1000000.0, -1.0, 0.25, -Q * 3))
            for _ in range(n)]


class Model:
    """Reference StopWatch."""

    def __init__(self, duration):
        self.duration = duration
        self.state = None
        self.started = None
        self.stopped = None
        self.splits = []

    def elapsed_at(self, r):
        if self.state == 'STOPPED':
            return max(0.0, self.stopped - self.started)
        return max(0.0, r - self.started)

    def apply(self, op, arg, r):
        """r: last clock reading handed out during the call (or None).
        Returns ('ok', value) or ('err',)."""
        st = self.state
        if op in ('start', 'enter'):
            if st != 'STARTED':
                self.started, self.stopped = r, None
                self.state = 'STARTED'
                self.splits = []
            return ('ok', 'self')
        if op == 'stop':
            if st == 'STOPPED':
                return ('ok', 'self')
            if st is None:
                return ('err',)
            self.stopped = r
            self.state = 'STOPPED'
            return ('ok', 'self')
        if op == 'exit':
            if st == 'STARTED':
                self.stopped = r
                self.state = 'STOPPED'
            return ('ok', None)
        if op == 'resume':
            if st != 'STOPPED':
                return ('err',)
            self.state = 'STARTED'
            return ('ok', 'self')
        if op == 'restart':
            self.started, self.stopped = r, None
            self.state = 'STARTED'
            self.splits = []
            return ('ok', 'self')
        if op == 'split':
            if st != 'STARTED':
                return ('err',)
            e = self.elapsed_at(r)
            ln = max(0.0, e - self.splits[-1][0]) if self.splits else e
            self.splits.append((e, ln))
            return ('ok', (e, ln))
        if op == 'elapsed':
            if st is None:
                return ('err',)
            e = self.elapsed_at(r)
            if arg is not None and e > arg:
                e = max(0.0, arg)
            return ('ok', e)
        if op == 'leftover':
            if st != 'STARTED':
                return ('err',)
            if self.duration is None:
                return ('ok', None) if arg else ('err',)
            return ('ok', max(0.0, self.duration - self.elapsed_at(r)))
        if op == 'expired':
            if st is None:
                return ('err',)
            if self.duration is None:
                return ('ok', False)
            return ('ok', self.elapsed_at(r) > self.duration)
        if op == 'has_started':
            return ('ok', st == 'STARTED')
        if op == 'has_stopped':
            return ('ok', st == 'STOPPED')
        if op == 'splits':
            return ('ok', list(self.splits))
        raise ValueError(op)


FORKS = False
TRANSPORTS = ('copy', 'deepcopy', 'pickle0', 'pickle2', 'pickle5')


def transport(watch, how):
    import copy
    import pickle
    if how == 'copy':
        return copy.copy(watch)
    if how == 'deepcopy':
        return copy.deepcopy(watch)
    return pickle.loads(pickle.dumps(watch, int(how[6:])))


CALLS = [0]


def call(watch, op, arg):
    try:
        if op == 'enter':
            v = watch.__enter__()
        elif op == 'exit':
            v = watch.__exit__(None, None, None)
        elif op == 'elapsed':
            # positionally or by keyword (alternating with the call count)
            CALLS[0] += 1
            v = watch.elapsed() if arg is None else (
                watch.elapsed(arg) if CALLS[0] % 2 else
                watch.elapsed(maximum=arg))
        elif op == 'leftover':
            CALLS[0] += 1
            v = watch.leftover(bool(arg)) if CALLS[0] % 2 else \
                watch.leftover(return_none=bool(arg))
        elif op == 'splits':
            v = watch.splits
        else:
            v = getattr(watch, op)()
    except RuntimeError:
        return ('err',)
    except Exception as e:
        return ('exc', type(e).__name__)
    if v is watch:
        return ('ok', 'self')
    if op == 'split':
        HANDED_OUT.append((v, (v.elapsed, v.length)))
        return ('ok', (v.elapsed, v.length))
    if op == 'splits':
        vals = [(s.elapsed, s.length) for s in v]
        # (the container may be a live view in some other tree; the records
        # in it are what must not change)
        for s_, val in zip(v, vals):
            if len(HANDED_OUT) < 200:
                HANDED_OUT.append((s_, val))
        return ('ok', vals)
    return ('ok', v)


# objects handed out by split() / splits in the current run, with what they
# read when they were handed out: a later call must not change them
HANDED_OUT = []


def handed_out_changed():
    for obj, was in HANDED_OUT:
        try:
            now_ = (obj.elapsed, obj.length) if not isinstance(was, list) \
                else [(s.elapsed, s.length) for s in obj]
        except Exception as e:
            return ('unreadable', type(e).__name__, was)
        if now_ != was:
            return ('changed', was, now_)
    return None


class C13(Check):
    ID = 'C13'
    LEVEL = 'exploration'
    RUNS = {'quick': sweep_total('quick') + 300000,
            'thorough': sweep_total('thorough') + 12000000}
    BLOCK = 500
    RULE = ('each run: one call history (geometric length <= 40 over start, '
            'stop, resume, restart, split, elapsed(maximum), '
            'leftover(return_none), expired, has_started, has_stopped, '
            'splits, __enter__, __exit__) x duration in {None, 0, 2^-10, 1, '
            '10^6} x clock step pattern (zero, tiny, one, large, backwards, '
            'mixed) on a simulated clock that moves on every read and '
            'between calls. distinct = distinct (duration class, clock '
            'pattern, op-sequence shape up to 6 calls, set of (state, op) '
            'transitions taken). The first runs of a batch are the sweep '
            'layer: every call sequence up to length 4 (quick) / 6 '
            '(thorough) over a 15-symbol alphabet')
    COMPONENTS = {'real': ['oslo_utils.timeutils.StopWatch, Split'],
                  'stub': ['monotonic clock behind timeutils.now']}
    ASSUMPTIONS = ['exact equality with the reference machine is asserted '
                   'only while the simulated clock has not stepped '
                   'backwards; after a backwards step only clamps, legality '
                   'and flags are asserted',
                   'negative maximum is not generated (not covered by the '
                   'statement)']
    FAULT_KINDS = ('clock_stall', 'clock_forward_jump', 'clock_backward_step',
                   'clock_read_fails')
    PROBES = ('clock_backwards_while_running', 'illegal_call',
              'split_after_resume', 'maximum_clamped', 'expired_true',
              'leftover_zero', 'watch_transported', 'transport_unsupported',
              'clock_failure_not_propagated', 'call_on_second_watch',
              'watch_forked', 'clock_hands_out_bigint',
              'clock_hands_out_fraction', 'clock_hands_out_decimal')

    def setup(self):
        core.import_sut()
        from oslo_utils import timeutils
        self.tu = timeutils

    def gen(self, st, tier, index, total):
        if index < sweep_total(tier):
            ops, dur = sweep_case(tier, index)
            crng = st('clock')
            pattern = crng.choice(PATTERNS)
            if dur == 'seeded':
                dur = st('config').choice(DURATIONS)
            return {'duration': dur, 'pattern': pattern,
                    'steps': gen_steps(crng, pattern), 'ops': ops,
                    'sweep': len(ops)}
        rng = st('ops')
        n = 1
        while n < 40 and rng.random() < 0.88:
            n += 1
        ops = []
        for _ in range(n):
            op = rng.choice(OPS)
            arg = None
            if op == 'elapsed':
                arg = rng.choice(MAXIMA)
            elif op == 'leftover':
                arg = rng.random() < 0.4
            ops.append([op, arg])
        # bias: start early in most histories
        if rng.random() < 0.7:
            ops.insert(0, [rng.choice(('start', 'enter', 'restart')), None])
        xrng = st('extras')
        if xrng.random() < 0.08:
            # the watch travels: the calls that follow are made on a copy
            # (copy / deepcopy / a pickle round trip, as when it is handed
            # to another worker)
            for _ in range(xrng.randint(1, 2)):
                ops.insert(xrng.randint(0, len(ops)),
                           ['transport', xrng.choice(TRANSPORTS)])
        if xrng.random() < 0.06:
            # the clock source fails once, on the first reading some call
            # asks for
            k = xrng.randrange(len(ops))
            if ops[k][0] != 'transport':
                ops[k] = [ops[k][0], ops[k][1], 'clock_fails']
        case2 = {}
        if xrng.random() < 0.12:
            # (no Decimal clocks: the pinned tree mixes its readings with
            # float literals - max(0.0, ...) - and a float minus a Decimal
            # is a TypeError in Python itself, e.g. in split() after a
            # stalled clock)
            case2['clock_type'] = xrng.choice(('bigint', 'bigint',
                                               'fraction'))
        fork_at = None
        # 'fork' (a copy is taken and BOTH copies go on being used) is no
        # longer generated: the statement's alphabet has no copy, and a tree
        # that keeps its splits in a list - refactoring C13-ref-2, which
        # keeps the property as stated - shares that list between a watch
        # and its shallow copy.  A watch that TRAVELS (the copy replaces the
        # original) stays; the executor still understands 'fork' so that
        # old replay files run.
        if FORKS and xrng.random() < 0.08:
            fork_at = xrng.randint(0, len(ops))
            ops.insert(fork_at, ['fork', xrng.choice(TRANSPORTS)])
            ops = ops[:fork_at + 1] + [
                (list(o) + [None] * (3 - len(o)) + [1])
                if xrng.random() < 0.5 and o[0] != 'transport' else o
                for o in ops[fork_at + 1:]]
        elif xrng.random() < 0.1:
            # a second watch alive at the same time: what is done to one
            # must not show in the other
            case2['duration2'] = xrng.choice(DURATIONS)
            ops = [(list(o) + [None] * (3 - len(o)) + [1])
                   if xrng.random() < 0.45 else o for o in ops]
        crng = st('clock')
        pattern = crng.choice(PATTERNS)
        dur = st('config').choice(DURATIONS)
        if case2.get('clock_type') == 'bigint' and \
                st('config').random() < 0.4:
            # a deadline on the counter's own scale: not every integer of
            # that size is a float
            dur = 2 ** 62 + st('config').choice((1, 3, 5, 7))
        return dict({'duration': dur,
                     'pattern': pattern, 'steps': gen_steps(crng, pattern),
                     'ops': ops}, **case2)

    def execute(self, case):
        log = core.EventLog()
        tu = self.tu
        clock = SimClock(case['pattern'], case['steps'],
                         case.get('clock_type'))
        if case.get('clock_type'):
            bump_later = case['clock_type']
        else:
            bump_later = None
        stats = {'faults': {}, 'probes': {}, 'families': {}, 'sim': {},
                 'distinct': []}
        fa, pr = stats['faults'], stats['probes']

        def bump(d, k, v=1):
            d[k] = d.get(k, 0) + v
        viols = []

        def viol(cls, **d):
            if len(viols) < 3:
                viols.append({'cls': cls, 'detail': d})
        if bump_later:
            bump(pr, 'clock_hands_out_' + bump_later)
        old_now = tu.now
        tu.now = clock.read
        trans = set()
        del HANDED_OUT[:]
        CALLS[0] = 0
        try:
            # one watch, or two alive at once (each call names its watch)
            durs = [case['duration']]
            if 'duration2' in case:
                durs.append(case['duration2'])
            watches = [tu.StopWatch(duration=d) for d in durs]
            models = [Model(d) for d in durs]
            resumeds = [False for _d in durs]
            for i, item in enumerate(case['ops']):
                op, arg = item[0], item[1]
                wi = item[3] if len(item) > 3 and item[3] < len(watches) \
                    else 0
                if op == 'fork':
                    # a copy is taken and BOTH go on being used
                    if len(watches) == 1:
                        try:
                            watches.append(transport(watches[0], arg))
                            models.append(copy.deepcopy(models[0]))
                            resumeds.append(resumeds[0])
                            bump(pr, 'watch_forked')
                        except Exception:
                            bump(pr, 'transport_unsupported')
                    continue
                if wi:
                    bump(pr, 'call_on_second_watch')
                watch, model, resumed = watches[wi], models[wi], resumeds[wi]
                if op == 'transport':
                    try:
                        watch = watches[wi] = transport(watch, arg)
                        bump(pr, 'watch_transported')
                    except Exception:
                        # this tree's watch does not travel that way
                        bump(pr, 'transport_unsupported')
                    continue
                clock.between()
                mark = len(clock.log)
                st_before = model.state
                snap_before = None
                clock.fired = False
                clock.fail_next = len(item) > 2 and item[2] == 'clock_fails'
                got = call(watch, op, arg)
                clock.fail_next = False
                if clock.fired:
                    bump(fa, 'clock_read_fails')
                    log.add(op, arg, got, 'clock failed')
                    if got != ('exc', 'ClockFault'):
                        bump(pr, 'clock_failure_not_propagated')
                    # The statement speaks of clock READINGS; what a watch
                    # is after a call during which the clock source failed
                    # it does not say (a tree that commits its new state
                    # before reading the clock keeps the property as stated),
                    # so nothing after this point is judged: the fault is
                    # injected to see that nothing hangs or corrupts the
                    # harness, and is counted.
                    break
                reads = clock.log[mark:]
                r = reads[-1] if reads else None
                back = clock.went_back
                if r is None and op in ('start', 'enter', 'restart') and \
                        st_before != 'STARTED':
                    if not clock.log:
                        # the watch never looked at timeutils.now in this
                        # run: the seam is not in effect on this tree, nothing
                        # can be decided
                        bump(pr, 'clock_seam_unavailable')
                    else:
                        viol('clock_not_read', op=op, index=i)
                    break
                if r is None:
                    r = clock.t   # unused by ops that need no reading
                want = model.apply(op, arg, r)
                trans.add((st_before or 'NEW', op))
                log.add(op, arg, got, want, back)
                if want[0] == 'err':
                    bump(pr, 'illegal_call')
                if got[0] == 'exc':
                    viol('unexpected_exception', op=op, index=i,
                         exc=got[1], state=st_before)
                    break
                ch = handed_out_changed() if HANDED_OUT else None
                if ch is not None:
                    viol('earlier_result_changed', op=op, index=i,
                         what=repr(ch)[:300])
                    break
                if got[0] != want[0]:
                    viol('legality_mismatch', op=op, index=i,
                         state=st_before, got=list(got), want=list(want))
                    break
                if got[0] == 'err':
                    continue
                if op == 'resume':
                    resumed = resumeds[wi] = True
                if op == 'split' and resumed:
                    bump(pr, 'split_after_resume')
                gv, wv = got[1], want[1]
                # clamps, always
                if op in ('elapsed', 'leftover') and gv is not None and \
                        gv < 0:
                    viol('negative_value', op=op, index=i, value=gv)
                    break
                if op == 'elapsed' and arg is not None and gv > arg:
                    viol('elapsed_exceeds_maximum', index=i, value=gv,
                         maximum=arg)
                    break
                if op == 'split' and (gv[0] < 0 or gv[1] < 0):
                    viol('negative_split', index=i, value=list(gv))
                    break
                if op in ('has_started', 'has_stopped', 'start', 'stop',
                          'resume', 'restart', 'enter', 'exit') and gv != wv:
                    viol('flag_or_return_mismatch', op=op, index=i, got=gv,
                         want=wv, state=st_before)
                    break
                if op == 'splits' and len(gv) != len(wv):
                    viol('splits_count_mismatch', index=i, got=len(gv),
                         want=len(wv))
                    break
                if not back:
                    if gv != wv:
                        viol('value_mismatch', op=op, index=i, arg=arg,
                             got=gv if op != 'split' else list(gv),
                             want=wv if op != 'split' else list(wv),
                             state=st_before, duration=case['duration'])
                        break
                    if op == 'splits':
                        prev = 0
                        for (e, ln) in gv:
                            if e < prev or ln != e - prev:
                                viol('splits_not_successive_differences',
                                     index=i, splits=gv)
                            prev = e
                else:
                    if st_before == 'STARTED':
                        bump(pr, 'clock_backwards_while_running')
                    # model under a backwards clock: re-sync so that later
                    # legality/flag checks stay meaningful
                    if op == 'split':
                        model.splits[-1] = tuple(gv)
                        # whatever the clock did, a split's length is the
                        # (clamped) difference of the RECORDED elapsed values
                        prev_e = model.splits[-2][0] \
                            if len(model.splits) > 1 else 0
                        if gv[1] != max(0, gv[0] - prev_e):
                            viol('split_length_not_difference_of_recorded',
                                 index=i, split=list(gv), previous=prev_e)
                            break
                if op == 'elapsed' and arg is not None and gv == arg and \
                        wv == arg:
                    bump(pr, 'maximum_clamped')
                if op == 'expired' and gv is True:
                    bump(pr, 'expired_true')
                if op == 'leftover' and gv == 0:
                    bump(pr, 'leftover_zero')
        finally:
            tu.now = old_now
        steps = case['steps']
        if any(s == 0 for s in steps):
            bump(fa, 'clock_stall')
        if any(s >= 1000000 for s in steps):
            bump(fa, 'clock_forward_jump')
        if clock.went_back:
            bump(fa, 'clock_backward_step')
        bump(stats['families'], case['pattern'])
        if case.get('sweep'):
            bump(stats['families'], 'sweep/len=%d' % case['sweep'])
        stats['sim']['clock_reads'] = len(clock.log)
        stats['sim']['simulated_seconds'] = int(clock.total_advance)
        stats['sim']['calls'] = len(case['ops'])
        for t in trans:
            bump(pr, 'T:%s/%s' % t)
        shape = [x[0] for x in case["ops"][:6]]
        stats['distinct'] = [core._h64(core.canon(
            [case['duration'], case['pattern'], shape, sorted(trans)]))]
        stats['faulty'] = case['pattern'] in ('backwards', 'mixed', 'zero')
        return {'violations': viols, 'digest': log.digest(), 'stats': stats}

    def subkey(self, case, v):
        return v['detail'].get('op')

    def reducers(self, case):
        ops = case['ops']
        n = len(ops)
        # drop suffix after violation is implicit; try removing chunks
        size = n // 2
        while size >= 1:
            for i in range(0, n, size):
                c = copy.deepcopy(case)
                c.pop('sweep', None)
                del c['ops'][i:i + size]
                if c['ops']:
                    yield c
            size //= 2
        if case['pattern'] != 'one':
            c = copy.deepcopy(case)
            c['pattern'] = 'one'
            c['steps'] = [1.0]
            yield c
        if len(case['steps']) > 1:
            c = copy.deepcopy(case)
            c['steps'] = case['steps'][:len(case['steps']) // 2]
            yield c
        for i, item in enumerate(ops):
            if item[0] not in ('transport', 'fork') and item[1] not in (None, False):
                c = copy.deepcopy(case)
                c['ops'][i][1] = None
                yield c

    def extra_coverage(self, agg):
        tr = sorted(k[2:] for k in agg['probes'] if k.startswith('T:'))
        sw = {k: v for k, v in agg['families'].items()
              if k.startswith('sweep/')}
        return {'sweep_layer': {
                    'what': 'every call sequence of the stated lengths over '
                            'the %d-symbol alphabet (13 calls + '
                            'elapsed(maximum=1) + leftover(return_none=True))'
                            ': lengths up to the first bound crossed with '
                            'all five durations, up to the second bound '
                            'with one seeded duration; clock pattern seeded '
                            'per run. A complete sweep of a small space, '
                            'declared as a smoke layer; the claim rests on '
                            'the seeded search' % NA,
                    'runs_by_length': dict(sorted(sw.items()))},
                'state_op_transitions_reached': len(tr),
                'state_op_transitions_possible': 3 * len(OPS),
                'simulated_time_s': agg['sim'].get('simulated_seconds', 0)}


CHECK = C13()
