"""C05 - inspector memory is bounded by a constant whatever the stream claims.

Multi-MiB hostile streams x chunk schedules; invariant after every chunk:
sum(context_info.values()) <= 1.5 MiB (vmdk) / 512 KiB (others).
"""
import copy

from models import formats as F
from models import gen as G
from sim import core, imgsim, streams
from sim.runner import Check

KI = 1024
MI = 1024 * 1024
BOUND = {'vmdk': 3 * MI // 2}
DEFAULT_BOUND = 512 * KI


def bound_of(name):
    return BOUND.get(name, DEFAULT_BOUND)


# Length / count / offset fields of the fixed-header formats (offset, width,
# byte order), from the format specifications - not only the fields the
# shipped inspectors read today.
FIELD_TABLES = {
    'qcow2': ('>', [(8, 8), (16, 4), (20, 4), (24, 8), (32, 4), (36, 4),
                    (40, 8), (48, 8), (56, 4), (60, 4), (64, 8), (96, 4),
                    (100, 4)]),
    'qed': ('<', [(4, 4), (8, 4), (12, 4), (40, 8), (48, 8), (56, 4),
                  (60, 4)]),
    'vhd': ('>', [(16, 8), (40, 8), (48, 8), (56, 4), (60, 4)]),
    'vdi': ('<', [(0x48, 4), (0x154, 4), (0x158, 4), (0x170, 8), (0x178, 4),
                  (0x180, 4), (0x184, 4)]),
    'luks': ('>', [(104, 4), (108, 4)] +
             [(208 + 48 * i + o, 4) for i in range(8) for o in (0, 40, 44)]),
    'gpt': ('<', [(446 + 16 * i + o, 4) for i in range(4) for o in (8, 12)]),
    'iso': ('<', [(32768 + 80, 4), (32768 + 128, 2), (32768 + 132, 4),
                  (32768 + 140, 4), (32768 + 158, 4), (32768 + 166, 4)]),
}
FIELD_VALUES = {
    2: (0, 1, 512, 2048, 32768, 65535),
    4: (0, 1, 9, 12, 16, 20, 21, 22, 31, 64, 104, 112, 512, 1023, 1024,
        65535, 1 << 19, (1 << 19) + 1, 1 << 20, 1 << 21, 1 << 31,
        (1 << 32) - 1),
    8: (0, 8, 72, 104, 112, 512, 4096, 65535, 65536, 1 << 20,
        (1 << 21) - 8, 1 << 21, 1 << 32, 1 << 63, (1 << 64) - 1),
}


# per-field candidates where the valid range of a field is known: its ends,
# one beyond, and a typical value
FIELD_SPECIFIC = {
    ('qcow2', 8): (0, 8, 104, 112, 512, 4096, 65536, 1 << 20, (1 << 21) - 8,
                   1 << 21, 1 << 32, (1 << 64) - 1),
    ('qcow2', 16): (0, 1, 1023, 1024, 65535, 1 << 19, (1 << 19) + 1, 1 << 20,
                    (1 << 21) - 112, 1 << 21, (1 << 32) - 1),
    ('qcow2', 20): (0, 8, 9, 16, 20, 21, 22, (1 << 32) - 1),
    ('qed', 4): (0, 4096, 65536, 1 << 26, (1 << 26) + 1, (1 << 32) - 1),
    ('vdi', 0x178): (0, 512, 1 << 20, 1 << 21, (1 << 32) - 1),
    ('luks', 104): (0, 1, 8, 4096, 1 << 31, (1 << 32) - 1),
}


def gen_fields(rng):
    layout = core.weighted(rng, [(k, 3 if k == 'qcow2' else 1)
                                 for k in sorted(FIELD_TABLES)])
    p = G.GEN[layout](rng)
    p['total'] = rng.choice((MI + 5, 2 * MI, 3 * MI))
    if layout == 'qcow2':
        p.pop('hdr_rand', None)
    order, table = FIELD_TABLES[layout]
    k = len(table) if rng.random() < 0.5 else rng.randint(1, len(table))
    muts = []
    for off, width in rng.sample(table, k):
        v = rng.choice(FIELD_SPECIFIC.get((layout, off)) or
                       FIELD_VALUES[width])
        muts.append([off, v.to_bytes(width, 'big' if order == '>'
                                     else 'little').hex()])
    return {'layout': layout, 'p': p, 'mut': sorted(muts)}


TILES = [
    # (unit, period, first offset, leading signatures)
    ('iso:0:BEA01', 2048, 32 * KI, []), ('iso:0:BEA01', 2048, 34 * KI, ['iso']),
    ('iso:0:NSR02', 2048, 32 * KI, []), ('iso:0:TEA01', 2048, 32 * KI, []),
    ('iso:0:BOOT2', 2048, 32 * KI, []), ('iso:1:CD001', 2048, 32 * KI, []),
    ('iso:2:CD001', 2048, 32 * KI, []), ('iso:255:CD001', 2048, 34 * KI, ['iso']),
    ('iso:0:CD001', 2048, 32 * KI, []),
    ('regi', 64 * KI, 192 * KI, ['vhdx']), ('regi', 4096, 0, ['vhdx']),
    ('metadata', 64 * KI, 256 * KI, ['vhdx']), ('metadata', 4096, 0, []),
    ('kdmv_footer', 512, 0, []), ('kdmv', 512, 0, []),
    ('kdmv_footer', 1536, 0, []),
    ('mbr', 512, 0, []), ('qcow2', 512, 0, []), ('luks', 592, 0, []),
    ('luks', 512, 0, []), ('vhd', 512, 0, []), ('vhdx', 64 * KI, 0, []),
    ('qed', 512, 0, []), ('desc_line', 27, 0, []),
    ('desc_line', 27, 1024, ['vmdk']),
]


def gen_hostile(rng):
    kind = core.weighted(rng, [('vmdk', 6), ('vhdx', 6), ('text', 2),
                               ('random', 1), ('valid', 2), ('mutated', 2),
                               ('tiled', 4), ('fields', 5)])
    if kind == 'fields':
        return kind, gen_fields(rng)
    if kind == 'tiled':
        # one structural unit of some format repeated to the end of a long
        # stream: whatever an inspector follows (descriptor sequences, table
        # chains, markers) never ends
        unit, period, start, lead = rng.choice(TILES)
        p = {'unit': unit, 'period': period, 'start': start,
             'lead': list(lead),
             'total': 2 * MI if unit.startswith('kdmv') or
             unit == 'desc_line' else rng.choice((MI + 5, MI + 5, 2 * MI)),
             'fill': rng.choice(('zero', 'zero', 'inc', 'text'))}
        if rng.random() < 0.3:
            p['start'] = start + rng.choice((0, period, 7 * period))
        return kind, {'layout': 'tiled', 'p': p}
    if kind == 'vmdk':
        p = G.gen_vmdk(rng, footer=rng.random() < 0.4)
        p['desc_num'] = rng.choice((0, 1, 2047, 2048, 2049, 4096, 1 << 32,
                                    (1 << 64) - 1, (1 << 55) + 1, 3000))
        p['desc_pad'] = rng.choice(('zero', 'text', 'inc'))
        if rng.random() < 0.5:
            # a descriptor without NUL anywhere: text fills the whole room
            p['desc_lines'] = ['# ' + 'x' * 500] * 8 + \
                G.gen_desc_lines(rng)
            p['desc_pad'] = 'text'
        p['data_after'] = rng.choice((0, 70000, MI, 2 * MI))
        p['fill'] = rng.choice(('zero', 'text', 'inc'))
        if rng.random() < 0.3:
            # the descriptor is announced somewhere else
            p['desc_sec'] = rng.choice((0, 2, 3, 2048, 1 << 40,
                                        (1 << 64) - 1))
        # every other offset / size field of the sparse header, too
        if rng.random() < 0.5:
            hv = (0, 1, 2, 3, 1 << 31, 1 << 32, (1 << 55) + 1, 1 << 63,
                  (1 << 64) - 2)
            for fld in ('gd_offset', 'rgd_offset', 'grain', 'sectors'):
                if rng.random() < 0.5:
                    p[fld] = rng.choice(hv)
            if p.get('footer'):
                p.pop('gd_offset', None)
        return kind, {'layout': 'vmdk', 'p': p}
    if kind == 'vhdx':
        p = G.gen_vhdx(rng)
        p['tail'] = rng.choice((MI // 2, MI, 3 * MI))
        c = rng.random()
        if c < 0.25:
            p['r_count'] = rng.choice((2047, 2048, 65535, (1 << 32) - 1))
        elif c < 0.5:
            p['m_count'] = rng.choice((2047, 2048, 65535))
        elif c < 0.75:
            p['item_length'] = rng.choice(((1 << 32) - 1, 65536, 65537,
                                           1 << 20, 1 << 31))
        else:
            # the length the region table declares for the metadata region:
            # huge, or smaller than where the table then puts the item
            p['meta_len'] = rng.choice(((1 << 32) - 1, 0, 1, 4096, 65536,
                                        1 << 20))
            p['item_length'] = rng.choice((8, (1 << 32) - 1))
        if rng.random() < 0.3:
            p['item_offset'] = rng.choice((64 * KI, 128 * KI, MI))
        p['fill'] = rng.choice(('zero', 'inc'))
        return kind, {'layout': 'vhdx', 'p': p}
    if kind == 'text':
        return kind, {'layout': 'raw', 'p': {
            'total': rng.choice((MI + 5, 2 * MI, 3 * MI + 17, 6 * MI)),
            'fill': 'text'}}
    if kind == 'random':
        return kind, {'layout': 'raw', 'p': {
            'total': rng.choice((MI, 2 * MI + 1)),
            'fill': rng.choice(('zero', 'rand:%d' % rng.randrange(99),
                                'inc'))}}
    rec = G.gen_wellformed(rng)
    if rec['layout'] not in ('vhdx', 'vmdk', 'vmdk_text'):
        rec['p']['total'] = rng.choice((MI, 2 * MI))
    if kind == 'mutated':
        _d, info = F.build(rec)
        muts = []
        for a, b in info['structured']:
            for _ in range(2):
                if b > a:
                    off = rng.randrange(a, b)
                    muts.append([off, rng.choice(('ff', 'ffff', 'ffffffff',
                                                  'ffffffffffffffff',
                                                  '00', '7f'))])
        rng.shuffle(muts)
        rec['mut'] = muts[:rng.randint(1, 6)]
    return kind, rec


class C05(Check):
    ID = 'C05'
    LEVEL = 'exploration'
    RUNS = {'quick': 3000, 'thorough': 80000}
    BLOCK = 10
    RULE = ('each run: one multi-MiB stream (VMDK with hostile descriptor '
            'sector counts and the footer flag, VHDX with hostile table '
            'counts / item lengths / region lengths, text, random, valid and '
            'field-maximised images, every length/count/offset field of the '
            'fixed-header formats (from their specifications) driven over '
            'boundary and plausible mid-range values, one structural unit of a format '
            'repeated to the end of the stream) x 2-3 chunk schedules x inspectors; '
            'retained bytes checked after every chunk and after finish(). '
            'distinct = distinct (content kind, hostile parameter values, '
            'schedule family, inspector) combinations whose stream is longer '
            'than the bound past the structure concerned')
    COMPONENTS = {'real': ['all ten inspectors, context_info accounting'],
                  'stub': ['byte source, chunk scheduler']}
    ASSUMPTIONS = ['context_info reports what the inspector retains (the '
                   'property is stated in terms of it)']
    FAULT_KINDS = ('hostile_field_value', 'endless_structure_sequence',
                   'inspector_error_genuine', 'fed_after_error',
                   'giant_single_chunk', 'empty_chunk')
    PROBES = ('vmdk_descriptor_at_cap', 'vhdx_item_length_clamped',
              'retained_over_256KiB', 'retained_over_1MiB',
              'stream_over_4MiB')

    def gen(self, st, tier, index, total):
        rng = st('content')
        kind, rec = gen_hostile(rng)
        data, info = F.build(rec)
        n = len(data)
        srng = st('schedule')
        scheds = []
        fams = ['whole', None] + ([None] if n < 2 * MI else [])
        if kind == 'tiled':
            fams = ['uniform', None]
        for fam in fams:
            if kind == 'tiled' and fam == 'uniform':
                # reads no larger than the repeated unit, so that whatever
                # follows the sequence is offered every element of it
                k = srng.choice((512, 2048, 2048, 4096))
                scheds.append({'fam': 'uniform(%d)' % k, 'rle': streams.rle(
                    streams.uniform_sizes(n, k))})
                continue
            name, r = streams.gen_schedule(srng, n, info['boundaries'],
                                           family=fam, max_chunks=3000)
            scheds.append({'fam': name, 'rle': r})
        return {'content': rec, 'kind': kind, 'scheds': scheds,
                # the caller keeps presenting the stream after an error
                'feed_after_error': st('config').random() < 0.3,
                # the inspectors are built with tracing=True
                'tracing': st('config').random() < 0.15,
                'chunk_kind': core.weighted(st('config'),
                                            imgsim.CHUNK_KINDS)}

    def execute(self, case):
        log = core.EventLog()
        imgsim.fi()
        imgsim.set_hash_salt(case.get('content') or case)
        data, info = F.build(case['content'])
        n = len(data)
        stats = {'faults': {}, 'probes': {}, 'families': {}, 'sim': {},
                 'distinct': []}
        fa, pr = stats['faults'], stats['probes']

        def bump(d, k, v=1):
            d[k] = d.get(k, 0) + v
        if case.get('kind') == 'tiled':
            bump(fa, 'endless_structure_sequence')
        if case.get('kind') in ('vmdk', 'vhdx', 'mutated', 'fields'):
            bump(fa, 'hostile_field_value')
        if n > 4 * MI:
            bump(pr, 'stream_over_4MiB')
        viols = []
        p = case['content'].get('p') or {}
        hostile = [case['content'].get('mut') if case.get('kind') == 'fields'
                   else None] + [p.get(k) for k in ('desc_num', 'r_count', 'm_count',
                                      'item_length', 'meta_len', 'footer',
                                      'item_offset', 'unit', 'period',
                                      'gd_offset', 'rgd_offset', 'grain')]
        for j, s in enumerate(case['scheds']):
            sizes = streams.expand(s['rle'])
            bump(stats['families'], s['fam'].split('(')[0])
            if len([x for x in sizes if x]) <= 1:
                bump(fa, 'giant_single_chunk')
            if 0 in sizes:
                bump(fa, 'empty_chunk')
            names = F.FORMATS if len(sizes) <= 600 else ('vmdk', 'vhdx',
                                                         'iso', 'luks')
            if case.get('kind') == 'tiled' and len(sizes) > 600:
                # many small reads: feed the inspector whose structures are
                # being repeated (all of them see the coarse schedule)
                u = p.get('unit', '')
                names = (('iso',) if u.startswith('iso:') else
                         ('vhdx',) if u in ('regi', 'metadata', 'vhdx') else
                         ('vmdk',) if u.startswith('kdmv') or
                         u == 'desc_line' else
                         ('luks',) if u == 'luks' else
                         ('gpt', 'qcow2', 'vhd', 'qed', 'vdi'))
            for name in names:
                r = imgsim.drive_bare(name, data, sizes, watch_regions=False,
                                      mem_bound=bound_of(name),
                                      feed_after_error=bool(
                                          case.get('feed_after_error')),
                                      tracing=bool(case.get('tracing')),
                                      kind=case.get('chunk_kind'))
                if r['error'] and case.get('feed_after_error'):
                    bump(fa, 'fed_after_error')
                bump(stats['sim'], 'bytes', n)
                bump(stats['sim'], 'chunks', len(sizes))
                if r['error']:
                    bump(fa, 'inspector_error_genuine')
                mr = r['max_retained']
                if mr > 256 * KI:
                    bump(pr, 'retained_over_256KiB')
                if mr > MI:
                    bump(pr, 'retained_over_1MiB')
                if name == 'vmdk' and mr >= (1 << 20) - 1:
                    bump(pr, 'vmdk_descriptor_at_cap')
                if name == 'vhdx' and p.get('item_length', 0) > 65536 and \
                        mr > 65536:
                    bump(pr, 'vhdx_item_length_clamped')
                log.add('run', name, s['fam'], len(sizes), mr, r['error'])
                if r['mem_bad']:
                    d = dict(r['mem_bad'][0])
                    d.update({'inspector': name, 'bound': bound_of(name),
                              'sched': j, 'max_retained': mr})
                    viols.append({'cls': 'memory_bound_exceeded',
                                  'detail': d})
                if n > bound_of(name):
                    stats['distinct'].append(core._h64(core.canon(
                        [case.get('kind'), hostile, s['fam'].split('(')[0],
                         name])))
        seen = set()
        uniq = []
        for v in viols:
            k = v['detail']['inspector']
            if k in seen:
                continue
            seen.add(k)
            uniq.append(v)
        stats['faulty'] = bool(fa)
        return {'violations': uniq, 'digest': log.digest(), 'stats': stats}

    def reducers(self, case):
        if case.get('feed_after_error'):
            c = copy.deepcopy(case)
            c['feed_after_error'] = False
            yield c
        if len(case['scheds']) > 1:
            for j in range(len(case['scheds'])):
                c = copy.deepcopy(case)
                del c['scheds'][j]
                yield c
        rec = case['content']
        if rec.get('mut'):
            for i in range(len(rec['mut'])):
                c = copy.deepcopy(case)
                del c['content']['mut'][i]
                yield c
        for pk in sorted(rec.get('p') or {}):
            c = copy.deepcopy(case)
            del c['content']['p'][pk]
            try:
                d2, _ = F.build(c['content'])
            except Exception:
                continue
            for s in c['scheds']:
                s['rle'] = [[len(d2), 1]]
                s['fam'] = 'min'
            yield c

    def sample(self, case):
        return {'content': case['content'], 'kind': case['kind'],
                'schedules': [{'family': s['fam'],
                               'chunks': streams.n_chunks(s['rle'])}
                              for s in case['scheds']]}


CHECK = C05()
