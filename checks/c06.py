"""C06 - InspectWrapper is a transparent pipe that isolates inspector faults.

Reference: a pass-through pipe.  Recorded history of one simulated session
(source chunks, every eat_chunk call with its outcome, what the reader got,
what surfaced) is checked against it.  Single faults are swept per workload
(fault_enumeration), multiple faults are sampled (exploration).
"""
import copy
import errno
import logging
import struct

from models import formats as F
from models import gen as G
from sim import core, imgsim, streams
from sim.runner import Check
from sim.streams import ReadintoSource, SimSource

PHASES = ('before', 'after', 'post_process', 'region_complete')
EXCS = ('RuntimeError', 'ValueError', 'struct.error', 'ImageFormatError',
        'KeyError', 'Injected', 'MemoryError', 'UnicodeDecodeError',
        'EmptyMessage', 'MultiLine', 'StrRaises', 'EmptyImageFormatError',
        'Falsy')
SRC_EXCS = ('OSError', 'ConnectionResetError', 'SimSourceError')


class InjectedFault(Exception):
    pass


class StrRaises(Exception):
    """An exception that cannot even be rendered."""

    def __str__(self):
        raise RuntimeError('__str__ of the injected exception raises')

    __repr__ = __str__


class FalsyFault(Exception):
    """An aggregate-style error without sub-errors: bool(exc) is False."""

    def __len__(self):
        return 0


def make_exc(kind):
    m = imgsim.fi()
    if kind == 'Falsy':
        return FalsyFault('injected fault')
    if kind == 'UnicodeDecodeError':
        return UnicodeDecodeError('ascii', b'\xff', 0, 1, 'injected')
    if kind == 'EmptyMessage':
        return ValueError()
    if kind == 'EmptyImageFormatError':
        return m.ImageFormatError()
    if kind == 'MultiLine':
        return RuntimeError('\ninjected fault\nsecond line %s %d\n')
    if kind == 'StrRaises':
        return StrRaises()
    return {'RuntimeError': RuntimeError, 'ValueError': ValueError,
            'struct.error': struct.error, 'KeyError': KeyError,
            'ImageFormatError': m.ImageFormatError,
            'Injected': InjectedFault,
            'MemoryError': MemoryError}[kind]('injected fault')


class History:
    def __init__(self):
        self.eats = {}        # name -> list of chunks offered
        self.raised = {}      # name -> (chunk index, exc object, injected?)
        self.after_raise = {}  # name -> calls after its first failure
        self.state = {}       # name -> list of (complete, format_match)
        self.fired = []       # injected faults that actually fired
        self.got = []         # chunks the reader received
        self.surfaced = None  # (op index, exc object)
        self.short_reads = 0
        self.finished = {}    # name -> number of eat_chunk calls before finish()
        self.fed_after_finish = []   # (name, exc type) eat_chunk after finish()
        self.ended = None     # how the reader's loop ended
        self.at_cut = None    # snapshot taken when an exception surfaced
        self.drained = False
        self.after_cut = []   # sizes of chunks handed out after the abort
        self.oversized = []   # read(n) that returned more than n bytes
        self.after_stop = None  # what next() did on an exhausted wrapper
        self.pieces = 0       # eat_chunk calls that continued a chunk


def instrument(insp, name, faults, hist, src):
    """Everything is keyed by the index of the SOURCE chunk being processed
    (the number of chunks the source has delivered so far, minus one), not by
    the number of eat_chunk calls: how the wrapper hands a chunk to an
    inspector - in one call, in pieces, not at all when it is empty - is its
    own business."""
    orig_eat = insp.eat_chunk
    hist.eats[name] = []
    hist.state[name] = []
    plan = {f['at']: f for f in faults if f['insp'] == name}

    def eat(chunk):
        i = max(0, len(src.delivered) - 1)
        lst = hist.eats[name]
        while len(lst) <= i:
            lst.append(None)
            hist.state[name].append(None)
        piece = lst[i] is not None
        # (copies: the producer may reuse its buffer for the next chunk)
        lst[i] = bytes(chunk) if not piece else lst[i] + bytes(chunk)
        if piece:
            hist.pieces += 1
        if name in hist.raised:
            hist.after_raise[name] = hist.after_raise.get(name, 0) + 1
        # an injected fault fires on the first piece of its chunk
        f = plan.get(i) if not piece else None
        armed = None
        if f is not None and f['phase'] == 'before':
            exc = make_exc(f['exc'])
            hist.fired.append((name, i, f['phase']))
            hist.raised.setdefault(name, (i, exc, True))
            raise exc
        if f is not None and f['phase'] in ('post_process',
                                            'region_complete'):
            exc = make_exc(f['exc'])
            armed = f['phase']

            def raiser(*a, **k):
                hist.fired.append((name, i, armed))
                raise exc
            setattr(insp, armed, raiser)
        try:
            try:
                orig_eat(chunk)
            finally:
                if armed:
                    try:
                        delattr(insp, armed)
                    except AttributeError:
                        pass
        except Exception as e:
            inj = armed is not None and e is exc
            if name in hist.finished and not inj:
                hist.fed_after_finish.append((name, type(e).__name__))
            hist.raised.setdefault(name, (i, e, inj))
            raise
        if f is not None and f['phase'] == 'after':
            exc = make_exc(f['exc'])
            hist.fired.append((name, i, f['phase']))
            hist.raised.setdefault(name, (i, exc, True))
            raise exc
        try:
            hist.state[name][i] = (bool(insp.complete),
                                   bool(insp.format_match))
        except Exception as e:
            hist.state[name][i] = ('EXC', type(e).__name__)
    insp.eat_chunk = eat
    orig_finish = insp.finish

    def finish():
        hist.finished.setdefault(name, len(hist.eats[name]))
        return orig_finish()
    insp.finish = finish


class _Sink(logging.Handler):
    """Formats every record (so that lazy log arguments are rendered) and
    throws the text away."""

    def emit(self, record):
        # like every stock handler: a record that cannot be rendered is the
        # logging system's problem, never the caller's
        try:
            self.format(record)
        except Exception:
            pass


def run_session(data, case, faults, src_fault):
    """One simulated session. Returns (hist, src, wrapper, close_exc)."""
    if not case.get('debuglog'):
        return _run_session(data, case, faults, src_fault)
    # a deployment that runs with debug logging: records are really rendered
    lg = logging.getLogger('oslo_utils')
    old_level = lg.level
    h = _Sink()
    lg.addHandler(h)
    lg.setLevel(logging.DEBUG)
    try:
        return _run_session(data, case, faults, src_fault)
    finally:
        lg.setLevel(old_level)
        lg.removeHandler(h)


def _run_session(data, case, faults, src_fault):
    m = imgsim.fi()
    sizes = streams.expand(case['rle'])
    pers = case['pers']
    # file personality: a zero in the plan is a read(0) request (legal, and
    # answered with b'' without being EOF)
    plan = sizes if (pers == 'iter' or case.get('read0')) else \
        [x for x in sizes if x > 0]
    cls = ReadintoSource if (pers == 'file' and case.get('readinto')) \
        else SimSource
    if case.get('no_close'):
        # a source without a close attribute at all
        cls = type('NoClose' + cls.__name__, (cls,), {'close': property()})
    elif case.get('close_fails'):
        # a source whose close() fails (a generator-backed source whose
        # clean-up raises, a socket already reset)
        def failing_close(self_):
            self_.closed += 1
            self_.close_error = OSError(errno.EIO, 'simulated close failure')
            raise self_.close_error
        cls = type('CloseFails' + cls.__name__, (cls,),
                   {'close': failing_close, 'close_error': None})
    src = cls(data, plan, fault=src_fault, kind=case.get('chunk_kind'))
    allowed = case.get('allowed')
    allowed_obj = imgsim.coll_arg(allowed, case.get('allowed_style'),
                                  case.get('allowed_name_style'))
    pre = case.get('presession')
    if pre:
        # an earlier stream in the same process, set up from the same
        # caller-owned allowed_formats list: whatever its inspectors did must
        # not matter to the stream under test
        pdata, _pi = F.build(pre['content'])
        # (kept short: in a sweep it precedes every one of several hundred
        # sessions)
        pdata = pdata[:65536]
        psrc = SimSource(pdata, streams.uniform_sizes(
            len(pdata), max(pre['chunk'], 4096)))
        pw = m.InspectWrapper(psrc, expected_format=pre.get('expected'),
                              allowed_formats=allowed_obj)
        try:
            for _c in pw:
                pass
        except Exception:
            pass
        try:
            pw.close()
        except Exception:
            pass
    w = m.InspectWrapper(src, expected_format=imgsim.name_arg(
        case.get('expected'), case.get('expected_style')),
                         allowed_formats=allowed_obj)
    imgsim.order_inspectors(w, case['order'])
    hist = History()
    for name, insp in imgsim.wrapper_inspectors(w).items():
        instrument(insp, name, faults, hist, src)
    op = 0
    mix = case.get('mixed_calls')
    while True:
        try:
            if mix and pers == 'iter' and mix[op % len(mix)] and \
                    op < len(plan) and plan[op] > 0:
                # the same wrapper consumed through read() now and then
                # (the source offers both protocols)
                chunk = w.read(plan[op])
            elif pers == 'file':
                req = plan[op] if op < len(plan) else 4096
                # short reads: the reader asks for more than the source
                # returns (pipes, sockets); legal for any file-like source
                ask = case.get('ask')
                if ask == 'plus1':
                    req += 1
                elif ask == 'big':
                    req = max(req, 65536)
                elif ask == 'double':
                    req = req * 2 + 3
                if op < len(plan) and plan[op] == 0:
                    req = 0
                if case.get('final_read') and op == len(plan) - 1 and \
                        plan[op] > 0:
                    # "give me the rest": read(-1) / read(None)
                    req = plan[op]
                    src.current_req = None
                    chunk = w.read(-1 if case['final_read'] == 'minus1'
                                   else None)
                    hist.got.append(bytes(chunk))
                    op += 1
                    continue
                if op < len(plan) and req > plan[op]:
                    hist.short_reads += 1
                src.current_req = req
                chunk = w.read(req)
                if len(chunk) > req:
                    hist.oversized.append((op, req, len(chunk)))
                if not chunk and req > 0:
                    hist.got.append(bytes(chunk))
                    hist.ended = 'eof'
                    break
            elif case.get('forloop'):
                # a for statement left after one chunk and entered again
                ended = True
                for chunk in w:
                    ended = False
                    break
                if ended:
                    hist.ended = 'stop'
                    break
            else:
                try:
                    chunk = next(w)
                except StopIteration:
                    hist.ended = 'stop'
                    if case.get('next_after_stop'):
                        # asking an exhausted iterator again: StopIteration
                        # again, nothing else
                        try:
                            next(w)
                            hist.after_stop = 'returned a chunk'
                        except StopIteration:
                            pass
                        except Exception as e2:
                            hist.after_stop = 'raised %s' % type(e2).__name__
                    break
        except core.StepCapExceeded:
            raise
        except Exception as e:
            hist.surfaced = (op, e)
            break
        hist.got.append(bytes(chunk))
        op += 1
    if hist.surfaced is not None and case.get('drain') and \
            src.raised is None:
        # a reader that catches the abort and keeps reading (draining the
        # upload, say): everything up to the cut is judged on a snapshot,
        # afterwards only "a failed inspector is never fed again" is
        hist.at_cut = {'eats': {n: list(v) for n, v in hist.eats.items()},
                       'reads': src.reads, 'delivered': len(src.delivered),
                       'after_raise': dict(hist.after_raise),
                       'state': {n: list(v) for n, v in hist.state.items()}}
        for _k in range(case['drain']):
            try:
                if pers == 'file':
                    c2 = w.read(512)
                    if not c2:
                        break
                else:
                    c2 = next(w)
                hist.after_cut.append(len(c2))
            except core.StepCapExceeded:
                raise
            except StopIteration:
                break
            except Exception:
                pass
        hist.drained = True
    close_exc = None
    try:
        w.close()
    except Exception as e:
        close_exc = e
    return hist, src, w, close_exc


def judge(case, hist, src, w, close_exc, viol):
    """The reference pipe, applied to the recorded history."""
    m = imgsim.fi()
    expected = case.get('expected')
    names = list(hist.eats)
    order = [n for n in case['order'] if n in names]
    delivered = src.delivered        # what the source produced, in order
    eats = hist.eats
    reads = src.reads
    after_raise = hist.after_raise
    if hist.at_cut is not None:
        st0 = hist.at_cut['state'].get(expected) or []
        rz0 = hist.raised.get(expected)
        mm = [i for i, t in enumerate(st0)
              if t is not None and t[0] is True and t[1] is False]
        if mm and (rz0 is None or rz0[0] > mm[0]):
            hist.at_cut['kind'] = 'mismatch'
        # the reader went on after the abort: rules about the stream up to
        # the cut use the snapshot
        delivered = src.delivered[:hist.at_cut['delivered']]
        eats = hist.at_cut['eats']
        reads = hist.at_cut['reads']
        after_raise = hist.at_cut['after_raise']
        if hist.after_cut and hist.at_cut.get('kind') == 'mismatch':
            # the expected format's inspector is complete and does not
            # match: that does not change any more, the stream stays cut off
            viol('data_delivered_after_mismatch_cutoff',
                 chunks=hist.after_cut[:5], expected=expected)
        for n, cnt in hist.after_raise.items():
            if n != expected and cnt > after_raise.get(n, 0):
                viol('failed_inspector_fed_again', inspector=n,
                     calls=cnt, failed_at=hist.raised[n][0],
                     after_abort=True)
                break
    # (4b) every inspector the configuration calls for takes part (it is
    # not lost because of what an earlier stream did)
    want_names = [x for x in F.FORMATS
                  if not case.get('allowed') or x in case['allowed']]
    missing = [x for x in want_names if x not in names]
    if missing and names:
        viol('inspector_not_offered_stream', inspector=missing[0],
             offered=[], wanted=[], n_offered=0,
             n_wanted=len(delivered), missing_from_wrapper=True)
    # failures that happened up to the cut (a drain may add later ones)
    raised = {n: r for n, r in hist.raised.items() if r[0] < len(eats[n])}
    # (1) transparency
    k = len(hist.got)
    # (equality, not identity: a wrapper may legitimately copy, for example
    # when it reads through readinto)
    if hist.got != delivered[:k]:
        viol('bytes_altered', got=[len(c) for c in hist.got[:8]],
             source=[len(c) for c in delivered[:8]])
    # which chunk, if any, cuts the stream off by rule (5)
    cut = None
    cut_kind = None
    if expected in names:
        rz = raised.get(expected)
        for i, stt in enumerate(hist.state[expected]):
            if stt is not None and stt[0] is True and stt[1] is False:
                cut, cut_kind = i, 'mismatch'
                break
        if rz is not None and (cut is None or rz[0] <= cut):
            cut, cut_kind = rz[0], 'raise'
    surf = hist.surfaced
    if surf is not None:
        op, exc = surf
        if src.raised is not None and exc is src.raised:
            if cut is not None and cut < op:
                viol('read_past_cutoff', cut=cut, op=op)
        elif cut is None:
            culprit = [n for n, r in raised.items() if r[1] is exc]
            viol('inspector_fault_reached_reader', exc=type(exc).__name__,
                 inspector=culprit[0] if culprit else None, op=op,
                 expected=expected)
        else:
            if op != cut:
                viol('cutoff_at_wrong_chunk', cut=cut, op=op, kind=cut_kind)
            if cut_kind == 'raise':
                if exc is not raised[expected][1]:
                    viol('expected_error_replaced', got=type(exc).__name__,
                         want=type(raised[expected][1]).__name__)
            elif not isinstance(exc, m.ImageFormatError):
                viol('mismatch_not_imageformaterror',
                     got=type(exc).__name__)
            if reads != cut + 1:
                viol('source_consumed_after_cutoff', reads=reads,
                     cut=cut)
    else:
        if cut is not None:
            viol('expected_failure_did_not_cut_stream', cut=cut,
                 kind=cut_kind, expected=expected)
        if src.raised is not None:
            viol('source_error_swallowed',
                 exc=type(src.raised).__name__)
    if src.raised is not None and surf is not None and \
            surf[1] is src.raised and hist.got != delivered:
        viol('bytes_before_source_error_lost')
    if hist.after_stop:
        viol('next_after_stopiteration', what=hist.after_stop)
    if hist.oversized:
        viol('read_returned_more_than_requested', op=hist.oversized[0][0],
             requested=hist.oversized[0][1], returned=hist.oversized[0][2])
    # (1b) the stream is not ended early: iteration stops only when the
    # source stopped, and nothing of what the source holds is withheld
    if surf is None and hist.ended == 'stop' and not src.stopped:
        viol('iteration_ended_before_source', delivered=len(delivered),
             source_bytes_left=len(src.data) - src.pos)
    if surf is None and src.raised is None and \
            b''.join(hist.got) != src.data:
        viol('bytes_lost', got=sum(len(c) for c in hist.got),
             source=len(src.data))
    # (2b) the wrapper itself must not break an inspector: feeding one after
    # telling it that the stream is finished makes it fail
    if hist.fed_after_finish:
        viol('inspector_fed_after_finish', inspector=hist.fed_after_finish[0][0],
             exc=hist.fed_after_finish[0][1],
             finished_after_chunks=hist.finished[hist.fed_after_finish[0][0]])
    # (3) never fed again
    for n, cnt in after_raise.items():
        viol('failed_inspector_fed_again', inspector=n, calls=cnt,
             failed_at=raised[n][0])
        break
    # (4) no starvation, no duplication, order preserved
    offered_all = list(delivered)
    if cut is not None and surf is not None and surf[0] == cut:
        full = offered_all[:cut]          # excluding the cut chunk
        upto_cut = offered_all[:cut + 1]
    else:
        full = upto_cut = offered_all
    # judged on the BYTES an inspector was offered, in order: whether the
    # wrapper passes empty chunks on, or hands a chunk over in pieces, is its
    # own business
    def joined(seq):
        return b''.join(bytes(c) for c in seq if c)
    jf = joined(full)
    ju = jf if upto_cut is full else joined(upto_cut)
    for n in names:
        got = eats[n]
        gb = joined(got)
        if n in raised:
            # everything before the chunk it failed on, and no more than
            # that chunk (it may have failed on a piece of it)
            k = raised[n][0]
            ok = gb.startswith(joined(upto_cut[:k])) and \
                joined(upto_cut[:k + 1]).startswith(gb)
        elif cut is not None and surf is not None and surf[0] == cut:
            # may or may not have been offered (part of) the cut chunk
            ok = gb.startswith(jf) and ju.startswith(gb)
        else:
            ok = gb == jf
        if not ok:
            viol('inspector_not_offered_stream', inspector=n,
                 offered=[len(c or b'') for c in got[:10]],
                 wanted=[len(c) for c in full[:10]],
                 n_offered=len(got), n_wanted=len(full))
            break
    if close_exc is not None and \
            close_exc is not getattr(src, 'close_error', None):
        # (the source's own close() failure may propagate from close())
        viol('close_raised', exc=type(close_exc).__name__)
    if surf is not None and getattr(src, 'close_error', None) is not None \
            and surf[1] is src.close_error:
        # nobody asked the wrapper to close the source in mid-stream, and
        # its failure must not replace what cut the stream off
        viol('source_close_error_surfaced_from_read', op=surf[0])
    # how often close() reaches the source is not part of the statement:
    # recorded as a probe by the caller, never a violation


def placements(names, nchunks):
    if nchunks <= 16:
        idxs = list(range(nchunks))
    else:
        idxs = sorted(set(list(range(6)) + [nchunks - 2, nchunks - 1]))
    for n in names:
        for i in idxs:
            for ph in ('before', 'after', 'post_process'):
                yield {'insp': n, 'at': i, 'phase': ph}


class C06(Check):
    ID = 'C06'
    LEVEL = 'fault_enumeration'
    RUNS = {'quick': 300 + 20000, 'thorough': 8000 + 800000}
    SWEEPS = {'quick': 300, 'thorough': 8000}
    BLOCK = 20
    RULE = ('the first runs of a batch are single-fault sweeps: one workload '
            '(content, read plan, source kind, expected_format, '
            'allowed_formats, inspector order) x every placement (inspector '
            'x every chunk index (first 6 / last 2 when there are more than 16 chunks) x phase before / after '
            'capture / in post_process) of one injected exception, each '
            'placement one simulated session; the remaining runs sample 0-3 '
            'inspector faults (4 phases, 8 exception classes) and source '
            'faults. Every session is judged against the pass-through pipe '
            'model. distinct = distinct (expected, source kind, fault '
            'placement (inspector, chunk, phase), whether the expected '
            'inspector is hit, cut-off kind) tuples over sessions in which '
            'at least one fault fired or a cut-off happened')
    COMPONENTS = {
        'real': ['InspectWrapper (_process_chunk, read, __next__, close), all '
                 'ten inspectors (genuine parser errors included)'],
        'stub': ['source (SimSource: file and iterator personalities, '
                 'faults)', 'injected inspector faults (instance-level '
                 'wrappers of eat_chunk / post_process / region_complete)',
                 'inspector iteration order'],
    }
    ASSUMPTIONS = ['BaseException subclasses are not injected (letting '
                   'KeyboardInterrupt through is correct)',
                   'single-fault sweep is complete per workload over all '
                   'chunk indices (sweep workloads have <= 14 chunks) and '
                   'the three phases before / after / post_process only']
    FAULT_KINDS = ('inspector_raises_before', 'inspector_raises_after',
                   'inspector_raises_post_process',
                   'inspector_raises_region_complete',
                   'inspector_error_genuine', 'source_raises',
                   'empty_chunk', 'short_read')
    PROBES = ('expected_inspector_aborted', 'expected_mismatch_cutoff',
              'fault_in_non_expected_swallowed', 'two_or_more_faults_fired',
              'fault_on_last_chunk', 'sessions', 'sweep_placements')

    def gen(self, st, tier, index, total):
        rng = st('content')
        sweep = index < self.SWEEPS[tier]
        if sweep:
            cls = core.weighted(rng, [('wellformed', 3), ('mutated', 2),
                                      ('polyglot', 2), ('unstructured', 2)])
            lay = core.weighted(rng, [('qcow2', 2), ('vhd', 1), ('vmdk', 3),
                                      ('vdi', 1), ('gpt', 2), ('luks', 1),
                                      ('qed', 1), ('raw', 2),
                                      ('vmdk_text', 1), ('iso', 1)])
            cls, rec = G.gen_content(rng, cls, layout=lay)
        elif rng.random() < 0.03:
            cls, rec = G.gen_big(rng, imgsim.size_knobs())
        else:
            cls, rec = G.gen_content(rng)
        data, info = F.build(rec)
        n = len(data)
        srng = st('schedule')
        pers = srng.choice(('file', 'iter'))
        if cls == 'big':
            # few, very large chunks: one giant chunk, a small head and the
            # rest, or pieces of a knob's size
            how = srng.choice(('whole', 'head', 'head', 'knob', 'mib'))
            if how == 'whole':
                sizes = [n]
            elif how == 'head':
                h = min(n, srng.choice((1, 64, 512, 4096, 65536)))
                sizes = [h, n - h]
            else:
                k = srng.choice(imgsim.size_knobs()) if how == 'knob' \
                    else 1 << 20
                k = max(k, n // 64)
                sizes = streams.uniform_sizes(n, k)
            sizes = [x for x in sizes if x > 0]
            if srng.random() < 0.3:
                sizes.insert(srng.randint(0, len(sizes)), 0)
            fam = 'big/' + how
            r = streams.rle(sizes)
        elif sweep:
            k = srng.randint(1, 12)
            cuts = sorted(set(srng.randrange(1, max(2, n)) for _ in
                              range(k))) if n > 1 else []
            if info['boundaries'] and srng.random() < 0.6:
                cuts.append(srng.choice(info['boundaries']))
            sizes = streams.cuts_to_sizes(cuts, n)
            fam = 'sweep'
            r = streams.rle(sizes)
        else:
            fam, r = streams.gen_schedule(srng, n, info['boundaries'],
                                          allow_empty=True,
                                          max_chunks=800)
        crng = st('config')
        expected = None
        if crng.random() < 0.6:
            expected = crng.choice(F.FORMATS) if crng.random() < 0.5 \
                else info['fmt'] if info['fmt'] in F.FORMATS else 'vmdk'
        allowed = None
        if crng.random() < 0.25:
            allowed = sorted(set(crng.sample(list(F.FORMATS),
                                             crng.randint(1, 6)) +
                                 ([expected] if expected and
                                  crng.random() < 0.8 else [])))
        order = list(F.FORMATS)
        st('order').shuffle(order)
        ask = core.weighted(crng, [(None, 5), ('plus1', 1), ('big', 2),
                                   ('double', 1)]) if pers == 'file' else None
        case = {'content': rec, 'pers': pers, 'fam': fam, 'rle': r, 'ask': ask,
                'debuglog': crng.random() < 0.3, 'read0': pers == 'file',
                'drain': crng.choice((0, 0, 1, 3)),
                'readinto': crng.random() < 0.5,
                'forloop': pers == 'iter' and crng.random() < 0.25,
                'next_after_stop': pers == 'iter' and crng.random() < 0.3,
                'mixed_calls': [crng.random() < 0.4 for _ in range(7)]
                if pers == 'iter' and crng.random() < 0.15 else None,
                'chunk_kind': core.weighted(crng, imgsim.CHUNK_KINDS),
                'no_close': crng.random() < 0.1,
                'close_fails': crng.random() < 0.1,
                'final_read': core.weighted(crng, [(None, 8), ('minus1', 1),
                                                   ('none', 1)])
                if pers == 'file' else None,
                'expected': expected, 'allowed': allowed, 'order': order,
                'sweep': sweep, 'faults': [], 'src_fault': None}
        arng = st('argshapes')
        if arng.random() < 0.2:
            # how the caller spells the configuration
            case['expected_style'] = arng.choice(imgsim.NAME_STYLES)
            case['allowed_style'] = arng.choice(imgsim.COLL_STYLES)
            case['allowed_name_style'] = arng.choice(imgsim.NAME_STYLES)
        prng = st('presession')
        if prng.random() < 0.2:
            _c2, rec2 = G.gen_content(prng)
            case['presession'] = {
                'content': rec2, 'chunk': prng.choice((512, 4096, 65536)),
                'expected': prng.choice((None, None, prng.choice(F.FORMATS)))}
        if not sweep:
            frng = st('faults')
            nch = max(1, streams.n_chunks(r))
            names = [x for x in F.FORMATS if not allowed or x in allowed]
            if frng.random() < 0.7:
                for _ in range(frng.randint(1, 3)):
                    at = frng.choice((0, 1, 2, nch - 1, nch,
                                      frng.randrange(nch + 1)))
                    case['faults'].append({
                        'insp': frng.choice(names), 'at': max(0, at),
                        'phase': frng.choice(PHASES),
                        'exc': frng.choice(EXCS)})
            if frng.random() < 0.15:
                # at == number of chunks: the call that would have reported
                # the end of the stream fails instead
                case['src_fault'] = {'at': frng.randrange(
                    streams.n_chunks(r) + 1),
                                     'exc': frng.choice(SRC_EXCS)}
        return case

    def execute(self, case):
        log = core.EventLog()
        imgsim.fi()
        imgsim.set_hash_salt(case.get('content') or case)
        data, info = F.build(case['content'])
        self.stats = stats = {'faults': {}, 'probes': {}, 'families': {},
                              'sim': {}, 'distinct': []}
        viols = []
        names = [x for x in F.FORMATS
                 if not case.get('allowed') or x in case['allowed']]
        nch = self._nch(case)
        self.bump('families', ('sweep/' if case['sweep'] else 'sampled/') +
                  case['pers'])
        if case['sweep']:
            sessions = [([], None)] + [([dict(p, exc='Injected')], None)
                                       for p in placements(names, nch)]
            # rotate the exception class over placements
            for j, (fl, _s) in enumerate(sessions):
                for f in fl:
                    f['exc'] = EXCS[j % len(EXCS)]
            self.bump('probes', 'sweep_placements', len(sessions) - 1)
        else:
            sessions = [(case['faults'], case['src_fault'])]
        for faults, src_fault in sessions:
            v = self._one(case, data, faults, src_fault, log)
            if v:
                for x in v:
                    x['detail']['faults'] = faults
                    x['detail']['src_fault'] = src_fault
                viols.extend(v)
                if len(viols) >= 3:
                    break
        stats['faulty'] = bool(stats['faults'])
        seen = set()
        uniq = []
        for v in viols:
            if v['cls'] in seen:
                continue
            seen.add(v['cls'])
            uniq.append(v)
        return {'violations': uniq[:3], 'digest': log.digest(),
                'stats': stats}

    @staticmethod
    def _nch(case):
        return len([x for x in streams.expand(case['rle'])
                    if x or case['pers'] == 'iter' or case.get('read0')]) + (
                        1 if case['pers'] == 'file' else 0)

    def bump(self, g, k, v=1):
        d = self.stats[g]
        d[k] = d.get(k, 0) + v

    def _one(self, case, data, faults, src_fault, log):
        viols = []

        def viol(cls, **d):
            viols.append({'cls': cls, 'detail': d})
        hist, src, w, close_exc = run_session(data, case, faults, src_fault)
        judge(case, hist, src, w, close_exc, viol)
        self.bump('probes', 'sessions')
        if case.get('debuglog'):
            self.bump('probes', 'debug_logging_rendered')
        if hist.drained:
            self.bump('probes', 'reader_went_on_after_abort')
        if case.get('presession'):
            self.bump('probes', 'earlier_stream_in_same_process')
        if getattr(src, 'readinto_calls', 0):
            self.bump('probes', 'source_read_through_readinto')
        if src.closed == 1:
            self.bump('probes', 'source_closed_exactly_once')
        self.bump('sim', 'bytes', src.pos)
        self.bump('sim', 'chunks', len(src.delivered))
        for (n, i, ph) in hist.fired:
            self.bump('faults', 'inspector_raises_' + ph)
            if i >= len(src.delivered) - 1:
                self.bump('probes', 'fault_on_last_chunk')
        if len(hist.fired) >= 2:
            self.bump('probes', 'two_or_more_faults_fired')
        for n, (i, e, inj) in hist.raised.items():
            if not inj:
                self.bump('faults', 'inspector_error_genuine')
            if n != case.get('expected'):
                self.bump('probes', 'fault_in_non_expected_swallowed')
        if src.raised is not None:
            self.bump('faults', 'source_raises')
        if hist.short_reads:
            self.bump('faults', 'short_read', hist.short_reads)
        if any(len(c) == 0 for c in src.delivered[:-1]):
            self.bump('faults', 'empty_chunk')
        exp = case.get('expected')
        cutkind = None
        if hist.surfaced is not None and src.raised is not hist.surfaced[1]:
            if exp in hist.raised and hist.raised[exp][1] is \
                    hist.surfaced[1]:
                self.bump('probes', 'expected_inspector_aborted')
                cutkind = 'raise'
            else:
                self.bump('probes', 'expected_mismatch_cutoff')
                cutkind = 'mismatch'
        log.add('session', [(f['insp'], f['at'], f['phase']) for f in faults],
                src_fault, case.get('ask'), bool(case.get('debuglog')),
                case.get('drain'), bool(case.get('readinto')),
                bool(case.get('presession')), case.get('chunk_kind'),
                bool(case.get('no_close')), bool(case.get('close_fails')),
                case.get('final_read'),
                bool(case.get('forloop')), bool(case.get('next_after_stop')),
                case.get('mixed_calls'),
                len(hist.got), src.reads,
                None if hist.surfaced is None else
                (hist.surfaced[0], type(hist.surfaced[1]).__name__),
                sorted((n, r[0]) for n, r in hist.raised.items()),
                imgsim.w_format(w), [v['cls'] for v in viols])
        if hist.fired or hist.raised or cutkind or src.raised is not None:
            self.stats['distinct'].append(core._h64(core.canon(
                [exp, case['pers'],
                 sorted((n, min(i, 8), ph) for n, i, ph in hist.fired),
                 exp in hist.raised, cutkind, src.raised is not None])))
        return viols

    def subkey(self, case, v):
        return None

    def reducers(self, case):
        if case['sweep']:
            # turn the failing placement into a sampled case
            names = [x for x in F.FORMATS
                     if not case.get('allowed') or x in case['allowed']]
            nch = self._nch(case)
            c = copy.deepcopy(case)
            c['sweep'] = False
            yield c
            for j, pl in enumerate(placements(names, nch)):
                c = copy.deepcopy(case)
                c['sweep'] = False
                c['faults'] = [dict(pl, exc=EXCS[(j + 1) % len(EXCS)])]
                yield c
            return
        for i in range(len(case['faults'])):
            c = copy.deepcopy(case)
            del c['faults'][i]
            yield c
        if case.get('src_fault'):
            c = copy.deepcopy(case)
            c['src_fault'] = None
            yield c
        if case.get('allowed'):
            c = copy.deepcopy(case)
            c['allowed'] = None
            yield c
        if case.get('ask'):
            c = copy.deepcopy(case)
            c['ask'] = None
            yield c
        if case.get('debuglog'):
            c = copy.deepcopy(case)
            c['debuglog'] = False
            yield c
        if case.get('drain'):
            c = copy.deepcopy(case)
            c['drain'] = 0
            yield c
        for key in ('presession', 'readinto', 'chunk_kind', 'no_close',
                    'final_read', 'forloop', 'next_after_stop',
                    'mixed_calls', 'close_fails'):
            if case.get(key):
                c = copy.deepcopy(case)
                c[key] = None
                yield c
        sizes = streams.expand(case['rle'])
        tot = sum(sizes)
        for ns in ([tot], streams.uniform_sizes(tot, max(1, tot // 2)),
                   streams.uniform_sizes(tot, 512)):
            if ns != sizes and ns and len(ns) < len(sizes):
                c = copy.deepcopy(case)
                c['rle'] = streams.rle(ns)
                yield c
        for f_i, f in enumerate(case['faults']):
            if f['at'] > 0:
                c = copy.deepcopy(case)
                c['faults'][f_i]['at'] = f['at'] - 1
                yield c
            if f['exc'] != 'Injected':
                c = copy.deepcopy(case)
                c['faults'][f_i]['exc'] = 'Injected'
                yield c
        rec = case['content']
        for key in ('mut', 'ext', 'trunc'):
            if rec.get(key):
                c = copy.deepcopy(case)
                c['content'].pop(key)
                try:
                    d2, _ = F.build(c['content'])
                except Exception:
                    continue
                c['rle'] = [[len(d2), 1]]
                yield c

    def execute_sweep_to_sampled(self, case, fault):
        c = copy.deepcopy(case)
        c['sweep'] = False
        c['faults'] = [fault]
        return c

    def sample(self, case):
        c = {k: v for k, v in case.items() if k != 'rle'}
        c['chunks'] = streams.n_chunks(case['rle'])
        return c


CHECK = C06()
