"""C07 - virtual_size equals the size the image declares; 0 while unknown.

Seeded search over layouts x declared sizes x chunk schedules; the size is
sampled after every chunk (every presented prefix, without finish()) and for a
few prefixes with finish().
"""
import copy

from models import formats as F
from models import gen as G
from sim import core, imgsim, streams
from sim.runner import Check

PREFIX_FORMATS = ('qcow2', 'vhd', 'vhdx', 'vmdk', 'vdi', 'iso')
WEIGHTS = [('qcow2', 3), ('vhd', 2), ('vhdx', 7), ('vmdk', 5), ('vdi', 2),
           ('iso', 3), ('gpt', 1), ('luks', 2), ('raw', 1), ('vmdk_text', 1)]


def gen_case_content(rng):
    layout = core.weighted(rng, WEIGHTS)
    p = G.GEN[layout](rng)
    # keep it well-formed: whole carrier present, sane values
    if layout in ('qcow2', 'vhd', 'vdi'):
        p['total'] = max(p['total'], 512)
        if layout == 'qcow2':
            p.pop('features', None)
    elif layout == 'iso':
        p['ident'] = 'CD001'
        p['total'] = max(p['total'], 34 * 1024)
        p.pop('blocks_be', None)
        p.pop('bsize_be', None)
    elif layout == 'luks':
        p['total'] = max(p['total'], 592)
        p['payload'] = min(p['payload'], p['total'] // 512)
    elif layout == 'vmdk':
        p['desc_num'] = max(1, p['desc_num'])
    elif layout == 'vhdx':
        # forward pointers only (well-formed)
        m_count = p['m_before'] + 1 + p['m_after']
        p['meta_offset'] = max(p['meta_offset'], 256 * 1024)
        p['item_offset'] = max(p['item_offset'], 32 + 32 * m_count)
    elif layout == 'vmdk_text':
        p.pop('pad_lines', None)
    return {'layout': layout, 'p': p}


class C07(Check):
    ID = 'C07'
    LEVEL = 'exploration'
    RUNS = {'quick': 20000, 'thorough': 600000}
    BLOCK = 50
    RULE = ('each run: one well-formed image from a layout model (declared '
            'size over the field range, table paddings, pointer placement, '
            'descriptor length, block size...) x 3 chunk schedules (bare '
            'inspector or InspectWrapper); virtual_size sampled after every '
            'chunk (= every presented prefix) and after finish(), plus up to '
            '4 truncated-at-boundary prefixes with finish(). distinct = '
            'distinct (layout, declared-size class, layout-shape, schedule '
            'signature) with a cut inside the structured part')
    COMPONENTS = {
        'real': ['all inspectors of oslo_utils.imageutils.format_inspector, '
                 'InspectWrapper', 'struct'],
        'stub': ['byte source, chunk scheduler, inspector order'],
    }
    ASSUMPTIONS = ['the layout models encode the declared size where the '
                   'format specification puts it',
                   'sampled, not exhaustive']
    FAULT_KINDS = ('early_eof_prefix_with_finish', 'empty_chunk',
                   'prefix_query_without_finish')
    PROBES = ('size_field_split_across_chunks', 'prefix_before_size_field',
              'prefix_between_field_and_carrier', 'declared_zero',
              'declared_ge_2_63', 'vhdx_full_tables', 'single_chunk',
              'query_mid_stream')

    def gen(self, st, tier, index, total):
        rng = st('content')
        rec = gen_case_content(rng)
        data, info = F.build(rec)
        n = len(data)
        srng = st('schedule')
        scheds = []
        for j in range(3):
            fam = ('whole', 'boundary', None)[j]
            if fam == 'boundary' and not info['boundaries']:
                fam = None
            name, r = streams.gen_schedule(srng, n, info['boundaries'],
                                           family=fam)
            mode = core.weighted(srng, [('bare', 6), ('witer', 2),
                                        ('wfile', 1)])
            s = {'mode': mode, 'fam': name, 'rle': r}
            if mode != 'bare':
                order = list(F.FORMATS)
                st('order').shuffle(order)
                s['order'] = order
                # the caller says which format it expects (the image's own)
                s['expected'] = st('order').random() < 0.5
            s['kind'] = core.weighted(st('order'), imgsim.CHUNK_KINDS)
            if mode == 'bare' and st('order').random() < 0.12:
                s['tracing'] = ('debug' if st('order').random() < 0.5
                                else True)
            qrng = st('queries')
            if qrng.random() < 0.3:
                # the caller looks at the inspector while the stream is
                # still flowing (format, size, safety verdict): looking must
                # not change what the size turns out to be
                nch = streams.n_chunks(r)
                if nch:
                    q = {}
                    for _ in range(qrng.randint(1, 3)):
                        at = qrng.randrange(min(nch, 4)) \
                            if qrng.random() < 0.5 else qrng.randrange(nch)
                        q[str(at)] = qrng.sample(imgsim.QUERIES,
                                                 qrng.randint(1, 3))
                        if qrng.random() < 0.5 and 'safety' not in q[str(at)]:
                            q[str(at)].append('safety')
                    s['q'] = q
            scheds.append(s)
        prefixes = []
        if info['fmt'] in PREFIX_FORMATS and info.get('size_field'):
            prng = st('prefix')
            cands = set()
            for b in info['boundaries'] + list(info['size_field']):
                for d in (-1, 0, 1):
                    if 0 <= b + d < n:
                        cands.add(b + d)
            cands = sorted(cands)
            for t in prng.sample(cands, min(4, len(cands))):
                name, r = streams.gen_schedule(
                    prng, t, [b for b in info['boundaries'] if b < t])
                prefixes.append({'at': t, 'fam': name, 'rle': r})
        return {'content': rec, 'scheds': scheds, 'prefixes': prefixes}

    def execute(self, case):
        log = core.EventLog()
        imgsim.fi()
        imgsim.set_hash_salt(case.get('content') or case)
        data, info = F.build(case['content'])
        n = len(data)
        fmt = info['fmt']
        declared = info['declared']
        textmode = bool(info.get('text'))
        if textmode:
            declared = 0
        sf = info.get('size_field')
        stats = {'faults': {}, 'probes': {}, 'families': {}, 'sim': {},
                 'distinct': []}
        fa, pr = stats['faults'], stats['probes']
        self._pr = pr

        def bump(d, k, v=1):
            d[k] = d.get(k, 0) + v
        if declared == 0:
            bump(pr, 'declared_zero')
        if declared is not None and declared >= 1 << 63:
            bump(pr, 'declared_ge_2_63')
        p = case['content'].get('p') or {}
        if fmt == 'vhdx' and (p.get('m_before', 0) + p.get('m_after', 0) >=
                              2046 or p.get('r_before', 0) +
                              p.get('r_after', 0) >= 2046):
            bump(pr, 'vhdx_full_tables')
        viols = []

        def check_prefix(pos, val, tag, j):
            """Value observed with `pos` bytes presented."""
            if fmt not in PREFIX_FORMATS or sf is None or textmode:
                return
            if pos < sf[1]:
                bump(pr, 'prefix_before_size_field')
                if val != 0:
                    viols.append({'cls': 'nonzero_before_size_known',
                                  'detail': {'inspector': fmt, 'pos': pos,
                                             'value': val, 'when': tag,
                                             'size_field': list(sf),
                                             'sched': j}})
            elif pos < info.get('carrier_end', n):
                bump(pr, 'prefix_between_field_and_carrier')
                if val not in (0, declared):
                    viols.append({'cls': 'garbage_size_on_prefix',
                                  'detail': {'inspector': fmt, 'pos': pos,
                                             'value': val, 'when': tag,
                                             'declared': declared,
                                             'sched': j}})
            else:
                if val not in (0, declared):
                    viols.append({'cls': 'garbage_size_on_prefix',
                                  'detail': {'inspector': fmt, 'pos': pos,
                                             'value': val, 'when': tag,
                                             'declared': declared,
                                             'sched': j}})

        for j, s in enumerate(case['scheds']):
            sizes = streams.expand(s['rle'])
            bump(stats['families'], s['fam'].split('(')[0] + '/' + s['mode'])
            bump(stats['sim'], 'bytes', n)
            bump(stats['sim'], 'chunks', len(sizes))
            if 0 in sizes:
                bump(fa, 'empty_chunk', sizes.count(0))
            if len([x for x in sizes if x]) <= 1:
                bump(pr, 'single_chunk')
            try:
                final, trace = self._run(fmt, data, sizes, s)
            finally:
                imgsim.debug_logging(False)
            bump(fa, 'prefix_query_without_finish', len(trace))
            log.add('sched', s['mode'], s['fam'], len(sizes), final,
                    trace[-3:])
            for pos, val in trace:
                if pos < n:
                    check_prefix(pos, val, 'mid-stream', j)
            if final is None:
                bump(pr, 'cut_off_by_expected_inspector')
            elif final != declared and declared is not None:
                viols.append({'cls': 'size_mismatch', 'detail': {
                    'inspector': fmt, 'declared': declared, 'got': final,
                    'sched': j, 'fam': s['fam'], 'mode': s['mode']}})
            if sf and streams.cuts_in_ranges(s['rle'], [tuple(sf)]):
                bump(pr, 'size_field_split_across_chunks')
            if streams.cuts_in_ranges(s['rle'], info['structured']):
                sig = streams.signature(s['rle'], info['boundaries'])
                szc = 'other'
                if declared in (0, 1):
                    szc = str(declared)
                elif declared and declared & (declared - 1) == 0:
                    szc = 'pow2'
                elif declared and declared & (declared + 1) == 0:
                    szc = 'pow2-1'
                shape = [p.get(k) for k in ('r_before', 'm_before',
                                            'meta_offset', 'item_offset',
                                            'desc_num', 'bsize', 'footer',
                                            'version')]
                stats['distinct'].append(core._h64(core.canon(
                    [info['layout'], szc, shape, sig])))
        for k, pf in enumerate(case['prefixes']):
            t = pf['at']
            sizes = streams.expand(pf['rle'])
            insp_r = imgsim.drive_bare(fmt, data[:t], sizes,
                                       watch_regions=False)
            val = insp_r['verdict']['virtual_size']
            bump(fa, 'early_eof_prefix_with_finish')
            bump(stats['sim'], 'bytes', t)
            log.add('prefix', t, val)
            check_prefix(t, val, 'finished-prefix', 'p%d' % k)
        seen = set()
        uniq = []
        for v in viols:
            if v['cls'] in seen:
                continue
            seen.add(v['cls'])
            uniq.append(v)
        stats['faulty'] = bool(case['prefixes'])
        return {'violations': uniq, 'digest': log.digest(), 'stats': stats}

    def _run(self, fmt, data, sizes, s):
        """-> (final virtual_size, [(pos, value) after every chunk])."""
        trace = []
        if s['mode'] == 'bare':
            insp = imgsim.new_inspector(fmt, s.get('tracing') or False)
            pos = 0
            err = False
            qp = s.get('q') or {}
            maker = streams.ChunkMaker(s.get('kind'), sizes)
            for ci, nbytes in enumerate(sizes):
                chunk = maker.make(data[pos:pos + nbytes])
                pos += nbytes
                if not err:
                    try:
                        insp.eat_chunk(chunk)
                    except Exception:
                        err = True
                trace.append((pos, imgsim.q_attr(insp, 'virtual_size')))
                for x in qp.get(str(ci), ()):
                    self._pr['query_mid_stream'] = \
                        self._pr.get('query_mid_stream', 0) + 1
                    imgsim.do_query(insp, x)
            # a producer that reuses its buffer has moved on
            maker.scrub()
            insp.finish()
            return imgsim.q_attr(insp, 'virtual_size'), trace
        from sim.streams import SimSource
        m = imgsim.fi()
        plan = [x for x in sizes if x > 0] if s['mode'] == 'wfile' else sizes
        src = SimSource(data, plan, kind=s.get('kind'))
        exp = fmt if (s.get('expected') and fmt in F.FORMATS) else None
        w = m.InspectWrapper(src, expected_format=exp)
        imgsim.order_inspectors(w, s.get('order') or list(F.FORMATS))
        insp = imgsim.wrapper_inspectors(w)[fmt]
        pos = 0
        idx = 0
        aborted = False
        while True:
            try:
                if s['mode'] == 'wfile':
                    chunk = w.read(plan[idx] if idx < len(plan) else 4096)
                    if not chunk:
                        break
                else:
                    try:
                        chunk = next(w)
                    except StopIteration:
                        break
            except core.StepCapExceeded:
                raise
            except Exception:
                if exp is None:
                    raise
                # the expected format's inspector cut the stream off (C06's
                # subject): the whole stream was not presented, nothing to
                # compare the final size with
                aborted = True
                break
            pos += len(chunk)
            trace.append((pos, imgsim.q_attr(insp, 'virtual_size')))
            for x in (s.get('q') or {}).get(str(idx), ()):
                self._pr['query_mid_stream'] = \
                    self._pr.get('query_mid_stream', 0) + 1
                imgsim.do_query(insp, x)
            idx += 1
        w.close()
        if aborted:
            return None, trace
        # (asked through the wrapper first: it may finish its inspectors
        # lazily, on the first question after the end of the stream)
        imgsim.w_format(w)
        return imgsim.q_attr(insp, 'virtual_size'), trace

    def finding(self, case, v):
        data, info = F.build(case['content'])
        if info.get('text') and v['cls'] == 'size_mismatch' and \
                v['detail'].get('got') == 'EXC:KeyError':
            return 'D3'
        return None

    def subkey(self, case, v):
        return v['detail'].get('inspector')

    def reducers(self, case):
        if len(case['scheds']) > 1:
            for j in range(len(case['scheds'])):
                c = copy.deepcopy(case)
                del c['scheds'][j]
                c['prefixes'] = []
                yield c
        if case['prefixes']:
            c = copy.deepcopy(case)
            c['scheds'] = []
            yield c
            for j in range(len(case['prefixes'])):
                c = copy.deepcopy(case)
                del c['prefixes'][j]
                yield c
        for j, s in enumerate(case['scheds']):
            if s['mode'] != 'bare':
                c = copy.deepcopy(case)
                c['scheds'][j]['mode'] = 'bare'
                yield c
        rec = case['content']
        for pk in sorted(rec.get('p') or {}):
            c = copy.deepcopy(case)
            del c['content']['p'][pk]
            c['prefixes'] = []
            try:
                d2, _ = F.build(c['content'])
            except Exception:
                continue
            for s in c['scheds']:
                s['rle'] = [[len(d2), 1]]
                s['fam'] = 'min'
            yield c
        for j, s in enumerate(case['scheds']):
            sizes = streams.expand(s['rle'])
            if 1 < len(sizes) <= 64:
                for i in range(len(sizes) - 1):
                    ns = sizes[:i] + [sizes[i] + sizes[i + 1]] + sizes[i + 2:]
                    c = copy.deepcopy(case)
                    c['scheds'][j]['rle'] = streams.rle(ns)
                    yield c
            elif len(sizes) > 64:
                tot = sum(sizes)
                for parts in (1, 2, 4, 16):
                    c = copy.deepcopy(case)
                    c['scheds'][j]['rle'] = streams.rle(
                        streams.uniform_sizes(tot, max(1, tot // parts)))
                    yield c

    def sample(self, case):
        return {'content': case['content'],
                'schedules': [{'mode': s['mode'], 'family': s['fam'],
                               'chunks': streams.n_chunks(s['rle'])}
                              for s in case['scheds']],
                'finished_prefixes': [pf['at'] for pf in case['prefixes']]}


CHECK = C07()
