"""C01 - the verdict depends on the bytes only, never on the chunking.

Seeded search: one content x K schedules (bare inspectors, wrapper via
iterator, wrapper via read()), oracles (a) cross-schedule agreement of the
final verdict, (b) no side effect of intermediate queries, (c) retained region
bytes == stream bytes at the region's offsets after every chunk, plus (d) a
small engine sweep over every chunking of tiny streams.
"""
import copy

from models import formats as F
from models import gen as G
from sim import core, imgsim, streams
from sim.runner import Check

K = {'quick': 6, 'thorough': 12}
OBS = ('format_match', 'complete', 'virtual_size', 'safety')


# ------------------------------------------------------------ engine sweep

def engine_configs(tier):
    nmax = 8 if tier == 'quick' else 10
    out = []
    for n in range(3, nmax + 1):
        for a_off in range(0, n, 2):
            for a_len, a_min in ((1, None), (3, None), (3, 1), (n, 2)):
                for chain in (0, 1, 2):
                    # p0 at 0 (len 1) -> p1 at t1 (len l1) -> p2 at t2 (len 1)
                    t1s = (1, 2, n - 2) if chain else (0,)
                    for t1 in sorted(set(t for t in t1s if 1 <= t < n)) or \
                            [0]:
                        if chain and t1 < 1:
                            continue
                        for end_k in (0, 2):
                            out.append({'n': n, 'a': [a_off, a_len, a_min],
                                        'chain': chain, 't1': t1,
                                        'l1': 1 if n % 2 else 2,
                                        'end': end_k})
    return out


_ENGINE_CACHE = {}


def engine_list(tier):
    if tier not in _ENGINE_CACHE:
        _ENGINE_CACHE[tier] = engine_configs(tier)
    return _ENGINE_CACHE[tier]


def make_engine_cls():
    m = imgsim.fi()

    class EngineInspector(m.FileInspector):
        NAME = 'engine'

        def __init__(self, spec):
            self.spec = spec
            self.completions = []
            self.chunk_idx = -1
            super().__init__()

        def _initialize(self):
            s = self.spec
            a_off, a_len, a_min = s['a']
            self.new_region('a', m.CaptureRegion(a_off, a_len,
                                                 min_length=a_min))
            if s['chain']:
                self.new_region('p0', m.CaptureRegion(0, 1))
            if s['end']:
                self.new_region('end', m.EndCaptureRegion(s['end']))
            self.add_safety_check(m.SafetyCheck.null())

        def post_process(self):
            s = self.spec
            if s['chain'] >= 1 and self.region('p0').complete and \
                    not self.has_region('p1'):
                t1 = self.region('p0').data[0]
                self.new_region('p1', m.CaptureRegion(t1, s['l1']))
            if s['chain'] >= 2 and self.has_region('p1') and \
                    self.region('p1').complete and not self.has_region('p2'):
                t2 = self.region('p1').data[0]
                self.new_region('p2', m.CaptureRegion(t2, 1))

        def region_complete(self, name):
            self.completions.append((name, self.chunk_idx))

        @property
        def format_match(self):
            return True
    return EngineInspector


def engine_stream(spec):
    """Distinct byte values >= 100, except pointer bytes which hold forward
    offsets."""
    n = spec['n']
    s = bytearray(100 + i for i in range(n))
    if spec['chain'] >= 1:
        s[0] = spec['t1']
        if spec['chain'] >= 2:
            t2 = min(n - 1, spec['t1'] + spec['l1'])
            if spec['t1'] < n:
                s[spec['t1']] = t2
    return bytes(s)


def engine_expected(spec, data, sizes):
    """Reference: what every region must hold after the chunking `sizes`."""
    n = len(data)
    ends = []
    pos = 0
    for s in sizes:
        pos += s
        ends.append(pos)

    def chunk_of(byte_index):
        for i, e in enumerate(ends):
            if byte_index < e and sizes[i] > 0:
                return i
        return None
    exp = {}
    comp = {}

    def fixed(name, off, ln, mn):
        need = mn if mn is not None else ln
        last = off + need - 1
        ci = chunk_of(last) if need > 0 and last < n else None
        if ci is None:
            exp[name] = data[off:off + ln]
            return
        hi = min(off + ln, ends[ci])
        exp[name] = data[off:hi]
        comp[name] = ci
    a_off, a_len, a_min = spec['a']
    fixed('a', a_off, a_len, a_min)
    if spec['chain'] >= 1:
        fixed('p0', 0, 1, None)
        if 'p0' in comp:
            t1 = data[0]
            fixed('p1', t1, spec['l1'], None)
            if spec['chain'] >= 2 and 'p1' in comp:
                fixed('p2', data[t1], 1, None)
    if spec['end']:
        exp['end'] = data[-spec['end']:] if n else b''
    return exp, comp


def run_engine(spec, cls):
    data = engine_stream(spec)
    n = len(data)
    viols = []
    evals = 0
    for mask in range(1 << (n - 1)):
        cuts = [i + 1 for i in range(n - 1) if mask >> i & 1]
        sizes = streams.cuts_to_sizes(cuts, n)
        if mask % 3 == 0:
            sizes.insert(mask % (len(sizes) + 1), 0)
        insp = cls(spec)
        pos = 0
        try:
            for i, s in enumerate(sizes):
                insp.chunk_idx = i
                insp.eat_chunk(data[pos:pos + s])
                pos += s
            insp.finish()
        except Exception as e:
            viols.append({'cls': 'engine_exception',
                          'detail': {'sizes': sizes, 'exc': repr(e)}})
            break
        evals += 1
        exp, comp = engine_expected(spec, data, sizes)
        got = {k: bytes(r.data) for k, r in imgsim.regions_of(insp).items()}
        gotc = {}
        dup = False
        for name, ci in insp.completions:
            if name in gotc:
                dup = True
            gotc[name] = ci
        # a region with min_length may legitimately go on capturing after it
        # counts as complete (the statement only fixes WHICH bytes a region
        # holds, not how many of them once the minimum is there): accept any
        # slice of the presented stream that starts at the offset, is at
        # least what the reference holds and at most the region length
        a_off, a_len, a_min = spec['a']
        if a_min is not None and 'a' in got and got['a'] != exp['a']:
            ga = got['a']
            if (len(exp['a']) <= len(ga) <= a_len and
                    ga == data[a_off:a_off + len(ga)]):
                got['a'] = exp['a']
        if got != exp:
            viols.append({'cls': 'engine_region_bytes', 'detail': {
                'sizes': sizes, 'expected': {k: v.hex() for k, v in
                                             exp.items()},
                'got': {k: v.hex() for k, v in got.items()}}})
            break
        if dup or gotc != comp:
            viols.append({'cls': 'engine_region_complete', 'detail': {
                'sizes': sizes, 'expected': comp,
                'got': list(insp.completions)}})
            break
    return viols, evals


# ------------------------------------------------------------ main check

def gen_qplan(rng, nchunks):
    if nchunks <= 0:
        return {}
    plan = {}
    if nchunks <= 64 and rng.random() < 0.3:
        # the heaviest plan: every query after every chunk
        return {str(i): list(imgsim.QUERIES) for i in range(nchunks)}
    for _ in range(rng.randint(1, 3)):
        # half of the queries right after one of the first chunks (the
        # moment an inspector has just become complete), half anywhere
        idx = rng.randrange(min(nchunks, 3)) if rng.random() < 0.5 \
            else rng.randrange(nchunks)
        qs = rng.sample(imgsim.QUERIES, rng.randint(1, 3))
        if 'safety' not in qs and rng.random() < 0.5:
            qs.append('safety')
        plan[str(idx)] = qs
    return plan


class C01(Check):
    ID = 'C01'
    LEVEL = 'exploration'
    RUNS = {'quick': 944 + 5000, 'thorough': 1504 + 150000}
    BLOCK = 25
    RULE = ('each run: one content recipe (layout model of one of the ten '
            'formats: well-formed / field-mutated / truncated / extended / '
            'polyglot / unstructured) x K chunk schedules (whole, uniform, '
            'cuts at +-1 of structure boundaries, 1-byte windows, random, '
            'mixed; empty chunks; query plans; inspector order), each run '
            'through bare inspectors or InspectWrapper (iterator / read()); in '
            'a fifth of the runs a second stream is inspected at the same '
            'time, interleaved chunk by chunk by the seeded scheduler; '
            'the first runs of a batch are the engine sweep (every chunking '
            'of a tiny stream for one region configuration). distinct = '
            'distinct (layout, content class, boundary-relative schedule '
            'signature) tuples whose schedule has a cut inside the '
            'structured part of the image or an empty chunk, or whose '
            'content is mutated/truncated; engine configs count once each')
    COMPONENTS = {
        'real': ['oslo_utils.imageutils.format_inspector (all ten inspectors,'
                 ' CaptureRegion, EndCaptureRegion, FileInspector, '
                 'InspectWrapper)', 'struct'],
        'stub': ['byte source (SimSource)', 'chunk scheduler',
                 'inspector iteration order of InspectWrapper'],
    }
    ASSUMPTIONS = [
        'layout models in models/formats.py describe the formats correctly',
        'a clean batch is evidence, not proof: schedules x contents are '
        'sampled',
    ]
    FAULT_KINDS = ('empty_chunk', 'short_read', 'concurrent_stream',
                   'truncated_stream',
                   'field_mutation',
                   'inspector_error_genuine', 'query_mid_stream',
                   'trailing_data')
    PROBES = ('several_regions_completed_in_one_chunk', 'single_chunk',
              'cut_at_boundary', 'cut_at_boundary_minus_1',
              'cut_at_boundary_plus_1', 'inspector_errored',
              'vhdx_size_found', 'vmdk_descriptor_parsed',
              'end_region_slid', 'verdict_with_format_match',
              'cut_off_by_expected_inspector',
              'expected_format_session_completed')

    def gen(self, st, tier, index, total):
        eng = engine_list(tier)
        if index < len(eng):
            return {'engine': eng[index]}
        rng = st('content')
        if rng.random() < 0.012:
            # a long stream, its length around one of the module's size
            # limits (one giant chunk against pieces)
            cls, rec = G.gen_big(rng, imgsim.size_knobs())
        else:
            cls, rec = G.gen_content(rng)
        data, info = F.build(rec)
        n = len(data)
        b = info['boundaries']
        scheds = []
        k = K[tier]
        srng = st('schedule')
        orng = st('order')
        qrng = st('queries')
        fams = ['whole', 'uniform512', 'boundary'] + [None] * (k - 3)
        for j, fam in enumerate(fams):
            mode = core.weighted(srng, [('bare', 4), ('witer', 4),
                                        ('wfile', 2)])
            if fam == 'uniform512' and cls == 'big':
                name, r = 'uniform(65536)', streams.rle(
                    streams.uniform_sizes(n, 65536))
            elif cls == 'big' and fam is None:
                k = srng.choice(imgsim.size_knobs() + [1 << 16, 1 << 18])
                if srng.random() < 0.5:
                    name, r = 'head+rest', streams.rle(streams.cuts_to_sizes(
                        [srng.choice((1, 64, 512, 4096, 65536))], n))
                else:
                    name, r = 'uniform(%d)' % k, streams.rle(
                        streams.uniform_sizes(n, max(k, n // 200)))
            elif fam == 'uniform512':
                name, r = 'uniform(512)', streams.rle(
                    streams.uniform_sizes(n, 512))
            elif fam == 'boundary' and not b:
                name, r = streams.gen_schedule(srng, n, b)
            else:
                name, r = streams.gen_schedule(srng, n, b, family=fam)
            s = {'mode': mode, 'fam': name, 'rle': r}
            if mode != 'bare':
                order = list(F.FORMATS)
                orng.shuffle(order)
                s['order'] = order
            if mode != 'bare' and orng.random() < 0.25:
                # the caller states what it expects: when that is what the
                # content is, the session must conclude what every other
                # session concludes
                cands = []
                if rec['layout'] == 'overlay':
                    cands = [x if isinstance(x, str) else x[0]
                             for x in rec['p'].get('sigs', [])]
                else:
                    cands = [rec['layout'].split('_')[0]]
                cands = [c for c in cands if c in F.FORMATS] or ['raw']
                s['expected'] = orng.choice(cands) if orng.random() < 0.85 \
                    else orng.choice(F.FORMATS)
            if mode == 'wfile':
                s['ask'] = core.weighted(orng, imgsim.ASK_MODES)
                if orng.random() < 0.25:
                    s['eof_read'] = False
            if mode == 'bare':
                s['end'] = core.weighted(orng, [(None, 6), ('finish_twice', 1),
                                                ('empty_then_finish', 1)])
                if orng.random() < 0.12:
                    s['tracing'] = True
            s['kind'] = core.weighted(orng, imgsim.CHUNK_KINDS)
            if qrng.random() < (0.7 if fam == 'boundary' else 0.4):
                s['q'] = gen_qplan(qrng, streams.n_chunks(r))
            scheds.append(s)
        case = {'content': rec, 'cls': cls, 'scheds': scheds}
        mrng = st('mix')
        if mrng.random() < 0.2:
            # a second stream inspected in the same process at the same time
            # (a service handles many uploads at once): neither verdict may
            # depend on the other stream
            cls2, rec2 = G.gen_content(mrng)
            d2, i2 = F.build(rec2)
            name2, r2 = streams.gen_schedule(mrng, len(d2), i2['boundaries'],
                                             max_chunks=400)
            case['other'] = {
                'content': rec2, 'rle': r2,
                'via': mrng.choice(('bare', 'bare', 'wrapper')),
                'pattern': mrng.choice(('a_then_b', 'b_then_a', 'alternate',
                                        'random', 'random')),
                'seed': mrng.randrange(1 << 30)}
        return case

    # -------------------------------------------------------------- execute
    def execute(self, case):
        log = core.EventLog()
        imgsim.fi()
        imgsim.set_hash_salt(case.get('content') or case)
        stats = {'faults': {}, 'probes': {}, 'families': {}, 'sim': {},
                 'classes': {}, 'distinct': []}
        if 'engine' in case:
            cls = make_engine_cls()
            viols, evals = run_engine(case['engine'], cls)
            log.add('engine', case['engine'], evals, len(viols))
            stats['sim'] = {'engine_chunkings': evals}
            stats['families'] = {'engine_sweep': 1}
            stats['distinct'] = [core._h64('eng' + core.canon(case['engine']))]
            return {'violations': viols, 'digest': log.digest(),
                    'stats': stats}
        data, info = F.build(case['content'])
        n = len(data)
        fa = stats['faults']
        pr = self._pr = stats['probes']

        def bump(d, k, v=1):
            d[k] = d.get(k, 0) + v
        if info['mutated']:
            bump(fa, 'field_mutation', len(case['content']['mut']))
        if info['truncated']:
            bump(fa, 'truncated_stream')
        if case['content'].get('ext'):
            bump(fa, 'trailing_data')
        viols = []
        results = []
        for j, s in enumerate(case['scheds']):
            sizes = streams.expand(s['rle'])
            if sum(sizes) != n:
                raise core.HarnessError('schedule does not cover the stream')
            bump(stats['families'], s['fam'].split('(')[0] + '/' + s['mode'])
            if 0 in sizes:
                bump(fa, 'empty_chunk', sizes.count(0))
            if s.get('ask'):
                bump(fa, 'short_read', len(sizes))
            if len([x for x in sizes if x]) <= 1:
                bump(pr, 'single_chunk')
            res = self._run_sched(data, s, sizes, True, log)
            results.append(res)
            bump(stats['sim'], 'bytes', n)
            bump(stats['sim'], 'chunks', len(sizes))
            for bd in res['region_bad']:
                bd = dict(bd)
                bd['sched'] = j
                viols.append({'cls': 'region_bytes', 'detail': bd})
            for nm, err in res['errors'].items():
                if err:
                    bump(fa, 'inspector_error_genuine')
                    bump(pr, 'inspector_errored')
            if s.get('q'):
                bump(fa, 'query_mid_stream', len(s['q']))
                res2 = self._run_sched(data, s, sizes, False, log)
                d = self._diff(res, res2)
                if d:
                    d['sched'] = j
                    viols.append({'cls': 'query_side_effect', 'detail': d})
            sig = streams.signature(s['rle'], info['boundaries'])
            if sig != ('dense',):
                for code in sig[0]:
                    if code & 1:
                        bump(pr, 'cut_at_boundary_minus_1')
                    if code & 2:
                        bump(pr, 'cut_at_boundary')
                    if code & 4:
                        bump(pr, 'cut_at_boundary_plus_1')
            nontrivial = (streams.cuts_in_ranges(s['rle'], info['structured'])
                          or 0 in sizes or info['mutated'] or
                          info['truncated'])
            if nontrivial:
                stats['distinct'].append(core._h64(core.canon(
                    [info['layout'], case.get('cls'), sig])))
        if case.get('other') and results:
            viols.extend(self._mixed(case, data, results, log, bump, fa))
        # probes on the first result
        per0 = results[0]['per'] if results else {}
        for nm, v in per0.items():
            if v['format_match'] is True and nm != 'raw':
                bump(pr, 'verdict_with_format_match')
            if nm == 'vhdx' and v['format_match'] is True and \
                    isinstance(v['virtual_size'], int) and v['virtual_size']:
                bump(pr, 'vhdx_size_found')
        # (a) cross-schedule agreement
        b0 = next((j for j, r in enumerate(results) if not r.get('cut')), 0)
        base = results[b0] if results else None
        for j in range(b0 + 1, len(results)):
            d = self._diff(base, results[j])
            if d:
                d['sched_a'] = b0
                d['sched_b'] = j
                viols.append({'cls': 'verdict_disagree', 'detail': d})
        # keep one violation per (class, inspector)
        seen = set()
        uniq = []
        for v in viols:
            key = (v['cls'], v['detail'].get('inspector'))
            if key in seen:
                continue
            seen.add(key)
            uniq.append(v)
        stats['faulty'] = bool(fa)
        return {'violations': uniq, 'digest': log.digest(), 'stats': stats}

    # ------------------------------------------------ two streams at once
    def _mixed(self, case, data_a, results, log, bump, fa):
        import random
        o = case['other']
        data_b, _ib = F.build(o['content'])
        # schedule of A: the cheapest of its schedules with < 400 chunks
        sa = None
        for s in case['scheds']:
            if streams.n_chunks(s['rle']) <= 400:
                sa = s
                break
        if sa is None:
            return []
        sizes_a = streams.expand(sa['rle'])
        sizes_b = streams.expand(o['rle'])
        via = o['via']
        m = imgsim.fi()
        bump(fa, 'concurrent_stream')

        def solo(data, sizes):
            if via == 'bare':
                return {nm: imgsim.drive_bare(nm, data, sizes,
                                              watch_regions=False)['verdict']
                        for nm in F.FORMATS}
            r = imgsim.drive_wrapper(data, sizes, 'iter',
                                     order=list(F.FORMATS),
                                     watch_regions=False)
            d = dict(r['per'])
            d['wrapper'] = {o_: None for o_ in OBS}
            d['wrapper']['format_match'] = r['format']
            d['wrapper']['safety_detail'] = None
            return d
        solo_a = solo(data_a, sizes_a)
        solo_b = solo(data_b, sizes_b)

        class Stream:
            def __init__(self, data, sizes):
                self.data, self.sizes, self.pos, self.k = data, sizes, 0, 0
                if via == 'bare':
                    self.insps = {nm: m.ALL_FORMATS[nm]() for nm in F.FORMATS}
                    self.err = set()
                else:
                    self.src = streams.SimSource(data, list(sizes))
                    self.w = m.InspectWrapper(self.src)
                    imgsim.order_inspectors(self.w, list(F.FORMATS))
                self.done = False

            def step(self):
                if via == 'bare':
                    if self.k >= len(self.sizes):
                        for i in self.insps.values():
                            i.finish()
                        self.done = True
                        return
                    n_ = self.sizes[self.k]
                    chunk = self.data[self.pos:self.pos + n_]
                    self.pos += n_
                    self.k += 1
                    for nm, i in self.insps.items():
                        if nm in self.err:
                            continue
                        try:
                            i.eat_chunk(chunk)
                        except Exception:
                            self.err.add(nm)
                else:
                    try:
                        next(self.w)
                    except StopIteration:
                        self.w.close()
                        self.done = True

            def verdicts(self):
                if via == 'bare':
                    return {nm: imgsim.verdict(i)
                            for nm, i in self.insps.items()}
                wf = imgsim.w_format(self.w)    # (asked first, see
                #                                 imgsim.drive_wrapper)
                d = {nm: imgsim.verdict(i) for nm, i in
                     imgsim.wrapper_inspectors(self.w).items()}
                d['wrapper'] = {o_: None for o_ in OBS}
                d['wrapper']['format_match'] = wf
                d['wrapper']['safety_detail'] = None
                return d
        a, b = Stream(data_a, sizes_a), Stream(data_b, sizes_b)
        rng = random.Random(o['seed'])
        pat = o['pattern']
        turn = 0
        steps = 0
        while not (a.done and b.done):
            if a.done:
                pick = b
            elif b.done:
                pick = a
            elif pat == 'a_then_b':
                pick = a
            elif pat == 'b_then_a':
                pick = b
            elif pat == 'alternate':
                pick = a if turn % 2 == 0 else b
            else:
                pick = a if rng.random() < 0.5 else b
            pick.step()
            turn += 1
            steps += 1
            if steps > 5000:
                raise core.HarnessError('mixed streams: step cap')
        out = []
        for tag, st_, solo_ in (('A', a, solo_a), ('B', b, solo_b)):
            got = st_.verdicts()
            for nm in sorted(solo_):
                va, vb = solo_[nm], got.get(nm)
                if vb is None:
                    continue
                obs = [o_ for o_ in OBS if va[o_] != vb[o_]]
                if obs:
                    out.append({'cls': 'verdict_depends_on_other_stream',
                                'detail': {'inspector': nm, 'stream': tag,
                                           'observable': obs, 'via': via,
                                           'pattern': pat,
                                           'alone': {o_: va[o_] for o_ in OBS},
                                           'together': {o_: vb[o_]
                                                        for o_ in OBS}}})
                    break
        log.add('mixed', via, pat, steps, len(out))
        return out[:1]

    def _run_sched(self, data, s, sizes, with_q, log):
        q = s.get('q') if with_q else None
        qp = {int(k): v for k, v in q.items()} if q else None
        if s['mode'] == 'bare':
            per = {}
            errors = {}
            bad = []
            for name in F.FORMATS:
                r = imgsim.drive_bare(name, data, sizes, qp,
                                      kind=s.get('kind'), end=s.get('end'),
                                      tracing=bool(s.get('tracing')))
                per[name] = r['verdict']
                errors[name] = r['error']
                for pk in r['probes']:
                    self._pr[pk] = self._pr.get(pk, 0) + 1
                if name == 'vmdk' and getattr(r['insp'], 'desc_text', None):
                    self._pr['vmdk_descriptor_parsed'] = \
                        self._pr.get('vmdk_descriptor_parsed', 0) + 1
                for b in r['region_bad']:
                    b['inspector'] = name
                    bad.append(b)
            out = {'per': per, 'errors': errors, 'region_bad': bad,
                   'wlevel': None}
        else:
            pers = 'iter' if s['mode'] == 'witer' else 'file'
            r = imgsim.drive_wrapper(data, sizes, pers, order=s.get('order'),
                                     wq=qp if qp else None,
                                     ask=s.get('ask'), kind=s.get('kind'),
                                     eof_read=s.get('eof_read', True),
                                     expected=s.get('expected'))
            # a wrapper that raises or drops bytes is C06's subject; here it
            # is simply part of what this schedule concluded, so that a
            # schedule-dependent failure shows up as a disagreement
            out = {'per': r['per'], 'errors': {}, 'region_bad':
                   r['region_bad'],
                   'wlevel': [r['format'], r['formats'], r['error'],
                              b''.join(r['got']) == data]}
            if s.get('expected') and r['error'] and r['error'][0] != 'close':
                # cut off by the expected format's inspector (C06's
                # subject): where the cut falls is the reader's chunking, so
                # what the other inspectors had seen by then is not a
                # verdict on the content
                out['cut'] = True
                self._pr['cut_off_by_expected_inspector'] = \
                    self._pr.get('cut_off_by_expected_inspector', 0) + 1
            elif s.get('expected'):
                self._pr['expected_format_session_completed'] = \
                    self._pr.get('expected_format_session_completed', 0) + 1
        log.add('sched', s['mode'], s['fam'], s.get('ask'), s.get('kind'),
                s.get('end'), s.get('expected'), s.get('eof_read', True), len(sizes),
                sorted((k, imgsim._vt(v)) for k, v in out['per'].items()),
                out['wlevel'], len(out['region_bad']))
        return out

    @staticmethod
    def _diff(a, b):
        if a.get('cut') or b.get('cut'):
            return None
        for name in sorted(a['per']):
            va, vb = a['per'][name], b['per'].get(name)
            if vb is None:
                continue
            obs = [o for o in OBS if va[o] != vb[o]]
            if obs:
                return {'inspector': name, 'observable': obs,
                        'a': {o: va[o] for o in OBS},
                        'b': {o: vb[o] for o in OBS},
                        'a_detail': va['safety_detail'],
                        'b_detail': vb['safety_detail']}
        if a['wlevel'] is not None and b['wlevel'] is not None and \
                a['wlevel'] != b['wlevel']:
            return {'inspector': 'wrapper', 'observable': ['format'],
                    'a': a['wlevel'], 'b': b['wlevel']}
        return None

    # ------------------------------------------------------------ findings
    def finding(self, case, v):
        if 'engine' in case:
            return None
        data, _info = F.build(case['content'])
        insp = v['detail'].get('inspector')
        if v['cls'] == 'verdict_disagree':
            # F1 / F3 are about the CHUNKING; a query that changes the
            # verdict under one and the same chunking is never a known
            # finding
            if insp == 'vmdk' and not data.startswith(b'KDMV'):
                return 'F1'
            if insp == 'wrapper' and F.is_texty_prefix(data):
                return 'F1'
            d = v['detail']
            if (insp == 'vmdk' and v['cls'] == 'verdict_disagree' and
                    data.startswith(b'KDMV') and 64 <= len(data) < 1600 and
                    data[56:64] == b'\xff' * 8 and
                    set(d['observable']) <= {'complete', 'safety'} and
                    d['a']['safety'] in ('fail', 'refused') and
                    d['b']['safety'] in ('fail', 'refused')):
                return 'F3'
        return None

    # ------------------------------------------------------------ minimiser
    def reducers(self, case):
        if 'engine' in case:
            return
        scheds = case['scheds']
        if case.get('other'):
            c = copy.deepcopy(case)
            del c['other']
            yield c
            for pat in ('a_then_b', 'b_then_a'):
                if case['other']['pattern'] != pat:
                    c = copy.deepcopy(case)
                    c['other']['pattern'] = pat
                    yield c
        # fewer schedules (keep pairs)
        if len(scheds) > 2:
            for j in range(len(scheds) - 1, -1, -1):
                c = copy.deepcopy(case)
                del c['scheds'][j]
                yield c
        # drop query plans / orders
        for j, s in enumerate(scheds):
            if s.get('q'):
                c = copy.deepcopy(case)
                del c['scheds'][j]['q']
                yield c
            for key in ('ask', 'kind', 'end', 'eof_read'):
                if s.get(key) not in (None, True):
                    c = copy.deepcopy(case)
                    del c['scheds'][j][key]
                    yield c
            if s['mode'] != 'bare':
                c = copy.deepcopy(case)
                c['scheds'][j]['mode'] = 'bare'
                c['scheds'][j].pop('order', None)
                yield c
        # simplify content
        rec = case['content']
        for key in ('mut', 'ext', 'trunc'):
            if rec.get(key):
                if key == 'mut' and len(rec['mut']) > 1:
                    for i in range(len(rec['mut'])):
                        c = copy.deepcopy(case)
                        del c['content']['mut'][i]
                        yield c
                c = copy.deepcopy(case)
                c['content'].pop(key)
                c2 = self._refit(c)
                if c2:
                    yield c2
        for pk in sorted(rec.get('p') or {}):
            c = copy.deepcopy(case)
            del c['content']['p'][pk]
            c2 = self._refit(c)
            if c2:
                yield c2
        # merge chunks
        for j, s in enumerate(scheds):
            sizes = streams.expand(s['rle'])
            if len(sizes) > 1 and len(sizes) <= 64:
                for i in range(len(sizes) - 1):
                    ns = sizes[:i] + [sizes[i] + sizes[i + 1]] + sizes[i + 2:]
                    c = copy.deepcopy(case)
                    c['scheds'][j]['rle'] = streams.rle(ns)
                    c['scheds'][j]['fam'] = 'min'
                    c['scheds'][j].pop('q', None)
                    yield c
            elif len(sizes) > 64:
                for parts in (1, 2, 4, 16):
                    total = sum(sizes)
                    ns = streams.uniform_sizes(total, max(1, total // parts))
                    c = copy.deepcopy(case)
                    c['scheds'][j]['rle'] = streams.rle(ns)
                    c['scheds'][j]['fam'] = 'min'
                    c['scheds'][j].pop('q', None)
                    yield c

    @staticmethod
    def _refit(case):
        """After a content change the stream length may differ: rescale every
        schedule by clipping / extending its last chunk."""
        try:
            data, _ = F.build(case['content'])
        except Exception:
            return None
        n = len(data)
        for s in case['scheds']:
            sizes = streams.expand(s['rle'])
            out = []
            pos = 0
            for x in sizes:
                if pos + x > n:
                    x = n - pos
                    if x == 0:
                        continue
                out.append(x)
                pos += x
            if pos < n:
                out.append(n - pos)
            s['rle'] = streams.rle(out)
            s.pop('q', None)
        return case

    def sample(self, case):
        if 'engine' in case:
            return case
        return {'content': case['content'], 'class': case['cls'],
                'schedules': [{'mode': s['mode'], 'family': s['fam'],
                               'chunks': streams.n_chunks(s['rle']),
                               'rle_head': s['rle'][:6],
                               'queries': s.get('q')}
                              for s in case['scheds']]}


CHECK = C01()
