"""C20 - file helpers agree with whole-file semantics and are idempotent.

File objects behind ``fileutils.open`` are simulated (short reads, read/seek
errors); ``fileutils.os`` is a fault-injecting proxy over the real os working
on a scratch directory; the reference is a dict-of-paths model.
"""
import copy
import errno
import hashlib
import os
import shutil
import tempfile

from sim import core, tasks
from sim.runner import Check
from sim.streams import SimFile

ALGS = sorted(a for a in hashlib.algorithms_available
              if not a.startswith('shake'))
CHUNKS = (1, 2, 7, 64, 4096, 65536)
ERRNOS = sorted(errno.errorcode)

def scratch_root():
    return core.scratch_dir('c20')


def as_kind(path, kind):
    """The path argument in the form a caller may legally pass it."""
    if kind == 'pathlib':
        import pathlib
        return pathlib.Path(path)
    if kind == 'bytes':
        return os.fsencode(path)
    return path


def same_path(p, path):
    try:
        return os.fsdecode(os.fspath(p)) == path
    except TypeError:
        return False


def content_of(spec):
    """spec: [seed, size]"""
    import random
    return random.Random(spec[0]).randbytes(spec[1])


class BackendError(OSError):
    """An OSError subclass of some storage backend: it carries an errno but
    is not one of the built-in errno-specific subclasses."""


NONOS = {
    'ValueError': lambda: ValueError('embedded null byte'),
    'UnicodeEncodeError': lambda: UnicodeEncodeError(
        'utf-8', '\udcff', 0, 1, 'surrogates not allowed'),
    'TypeError': lambda: TypeError('injected'),
    'RuntimeError': lambda: RuntimeError('injected'),
    'KeyError': lambda: KeyError('injected'),
    'LookupError': lambda: LookupError('injected'),
}


def make_oserror(e, style, *info):
    """An OSError with errno e, built the way different callers build them:
    'auto' - OSError(e, ...) (Python picks FileNotFoundError etc.),
    'subclass' - a backend's own OSError subclass carrying the errno,
    'assigned' - a bare OSError whose errno is assigned afterwards."""
    if isinstance(e, str):
        # not an OSError at all (what a path with an embedded NUL, a wrong
        # argument type or a backend's own error class produces)
        return NONOS[e]()
    msg = 'injected %s' % errno.errorcode.get(e, e)
    if style == 'subclass':
        return BackendError(e, msg, *info)
    if style == 'assigned':
        x = OSError(msg)
        x.errno = e
        return x
    return OSError(e, msg, *info)


class OsProxy:
    """fileutils.os: real os underneath, faults injected per plan."""

    def __init__(self, plan, rec, style=None):
        self._plan = plan          # {'makedirs': errno, 'write': errno, ...}
        self._rec = rec
        self._style = style
        self.path = os.path
        self.SEEK_END = os.SEEK_END
        self.SEEK_SET = os.SEEK_SET

    def __getattr__(self, name):
        return getattr(os, name)

    def _maybe(self, call, *info):
        e = self._plan.get(call)
        self._rec['calls'].append(call)
        if e is not None:
            self._rec['fired'].append(call)
            raise make_oserror(e, self._style, *info)

    def makedirs(self, path, mode=0o777, exist_ok=False):
        if exist_ok and self._plan.get('makedirs') == errno.EEXIST and \
                os.path.isdir(path):
            # a caller that passes exist_ok=True never sees EEXIST for an
            # existing directory from the real function: do not invent it
            self._rec['calls'].append('makedirs')
            return os.makedirs(path, mode, exist_ok)
        self._maybe('makedirs', path)
        return os.makedirs(path, mode, exist_ok)

    def write(self, fd, data):
        self._maybe('write')
        return os.write(fd, data)

    def close(self, fd):
        self._rec['closed'].append(fd)
        if self._plan.get('close') is not None:
            # as on Linux: the descriptor is released even when close()
            # reports an error
            os.close(fd)
        self._maybe('close')
        return os.close(fd)


class TempfileProxy:
    def __init__(self, plan, rec):
        self._plan = plan
        self._rec = rec

    def __getattr__(self, name):
        return getattr(tempfile, name)

    def mkstemp(self, *a, **k):
        e = self._plan.get('mkstemp')
        if e is not None:
            self._rec['fired'].append('mkstemp')
            raise OSError(e, 'injected')
        fd, p = tempfile.mkstemp(*a, **k)
        self._rec['opened'].append(fd)
        return fd, p


class C20(Check):
    ID = 'C20'
    LEVEL = 'fault_enumeration'
    RUNS = {'quick': 0, 'thorough': 0}   # set below
    BLOCK = 50
    RULE = ('the first runs of a batch are the errno sweep: every errno of '
            'errno.errorcode (as OSError(errno), as a backend\'s own OSError '
            'subclass, as an OSError with the errno assigned) injected into '
            'makedirs (ensure_tree; path '
            'missing / existing directory / existing file) and into the '
            'remove function (delete_if_exists); the remaining runs are '
            'seeded cases: compute_file_checksum (content sizes around '
            'multiples of the chunk size x chunk sizes x algorithms x '
            'short-read schedules x read errors, simulated and real files), '
            'last_bytes (n around the size; seek errors), write_to_tempfile '
            '(nested missing directories, prefix/suffix, pre-existing '
            'files, write/close/mkstemp errors, descriptor accounting), '
            'ensure_tree / delete_if_exists on pre-existing state; 2-3 '
            'checksum / last_bytes calls in flight at once, interleaved at '
            'every simulated read by the seeded scheduler. distinct '
            '= distinct (function, parameter class, fault kind/errno, '
            'file-system state class)')
    COMPONENTS = {
        'real': ['oslo_utils.fileutils', 'hashlib', 'os / tempfile calls on '
                 'a scratch directory'],
        'stub': ['file objects behind fileutils.open (SimFile)',
                 'fault-injecting proxies behind fileutils.os / '
                 'fileutils.tempfile', 'fileutils.time.sleep (counted no-op)',
                 'remove= parameter'],
    }
    ASSUMPTIONS = ['a short os.write is not injected (outside the '
                   'statement, see DESIGN.md section 8)',
                   'delete_if_exists default remove (bound at import) is '
                   'exercised with real files only']
    FAULT_KINDS = ('short_read', 'read_error', 'seek_error',
                   'task_switch_at_io', 'size_metadata_disagrees',
                   'errno_on_makedirs', 'errno_on_remove', 'errno_on_write',
                   'errno_on_close', 'errno_on_mkstemp',
                   'non_oserror_on_makedirs', 'non_oserror_on_remove')
    PROBES = ('final_short_chunk', 'exact_multiple', 'empty_file',
              'chunk_larger_than_file', 'EEXIST_on_file', 'EEXIST_on_dir',
              'ENOENT_swallowed', 'n_larger_than_file', 'real_file_route',
              'nested_dirs_created', 'fd_closed_after_write_error')

    def __init__(self):
        self.sweep = []
        for style in ('auto', 'subclass', 'assigned'):
            for e in ERRNOS:
                for state in ('missing', 'dir', 'file'):
                    self.sweep.append({'fn': 'ensure_tree', 'errno': e,
                                       'state': state, 'style': style})
                for state in ('missing', 'file'):
                    self.sweep.append({'fn': 'delete_if_exists', 'errno': e,
                                       'state': state, 'style': style})
        for name in sorted(NONOS):
            for state in ('missing', 'dir', 'file'):
                self.sweep.append({'fn': 'ensure_tree', 'errno': name,
                                   'state': state, 'style': 'auto'})
            for state in ('missing', 'file'):
                self.sweep.append({'fn': 'delete_if_exists', 'errno': name,
                                   'state': state, 'style': 'auto'})
        self.RUNS = {'quick': len(self.sweep) + 50000,
                     'thorough': len(self.sweep) + 3000000}

    def setup(self):
        core.import_sut()
        from oslo_utils import fileutils
        self.fu = fileutils

    def gen(self, st, tier, index, total):
        if index < len(self.sweep):
            return dict(self.sweep[index], sweep=True)
        rng = st('case')
        fn = core.weighted(rng, [('checksum', 5), ('last_bytes', 3),
                                 ('tempfile', 3), ('ensure_tree', 1),
                                 ('delete_if_exists', 1), ('concurrent', 2)])
        c = {'fn': fn, 'sweep': False}
        if fn == 'concurrent':
            subs = []
            for _ in range(rng.randint(2, 3)):
                if rng.random() < 0.75:
                    ch = rng.choice((1, 2, 7, 64, 4096, 65536))
                    size = rng.choice((0, 1, ch - 1, ch, ch + 1, 3 * ch,
                                       2 * ch + 5))
                    if ch == 1:
                        size = min(size, 50)
                    short = [rng.choice((0, 1, 3))
                             for _ in range(rng.randint(1, 3))] \
                        if rng.random() < 0.3 else []
                    if short:
                        # every read is a scheduler step: keep it bounded
                        size = min(size, 600)
                    subs.append({'fn': 'checksum', 'chunk': ch,
                                 'content': [rng.randrange(1 << 30),
                                             max(0, size)],
                                 'alg': rng.choice(ALGS), 'short': short})
                else:
                    size = rng.choice((0, 1, 10, 100, 5000))
                    subs.append({'fn': 'last_bytes',
                                 'content': [rng.randrange(1 << 30), size],
                                 'n': rng.choice((0, 1, size, size + 1,
                                                  size // 2, 1 << 20))})
            c.update({'subs': subs,
                      'engine': rng.choice(('greenlet', 'thread')),
                      'sched_seed': rng.randrange(1 << 30)})
            return c
        if fn == 'checksum':
            ch = rng.choice(CHUNKS + (None,))
            base = ch or 65536
            k = rng.choice((0, 1, 2, 3))
            size = max(0, k * base + rng.choice((-1, 0, 1, 0, base // 2)))
            if base == 65536 and k > 2:
                size = 2 * base + rng.choice((-1, 0, 1))
            if ch is None:
                ch_used = size + rng.choice((1, 10, 65536))
            else:
                ch_used = ch
            if ch_used == 1:
                size = min(size, 2000)
            c.update({'content': [rng.randrange(1 << 30), size],
                      'chunk': ch_used, 'alg': rng.choice(ALGS),
                      'default_args': ch is None and rng.random() < 0.3,
                      'short': [rng.choice((0, 1, 3, max(1, ch_used // 2),
                                            ch_used - 1 if ch_used > 1 else 1))
                                for _ in range(rng.randint(1, 4))]
                      if rng.random() < 0.5 else [],
                      'fault': {'at': rng.randrange(0, 5),
                                'errno': rng.choice((errno.EIO, errno.ESTALE,
                                                     errno.EINTR))}
                      if rng.random() < 0.12 else None,
                      'real': rng.random() < 0.15,
                      'stat_lies': rng.choice((None, None, None, 'zero',
                                               'half', 'bigger'))})
        elif fn == 'last_bytes':
            size = rng.choice((0, 1, 2, 10, 100, 5000))
            n = rng.choice((0, 1, max(0, size - 1), size, size + 1,
                            size + 1000, 1 << 40, size // 2))
            c.update({'content': [rng.randrange(1 << 30), size], 'n': n,
                      'seek_errno': rng.choice((errno.EIO, errno.ESPIPE,
                                                errno.EBADF, errno.EOVERFLOW))
                      if rng.random() < 0.15 else None,
                      'real': rng.random() < 0.4})
        elif fn == 'tempfile':
            depth = rng.choice((None, 0, 1, 2, 3, 4))
            c.update({'content': [rng.randrange(1 << 30),
                                  rng.choice((0, 1, 100, 70000))],
                      'depth': depth,
                      'existing_depth': rng.randint(0, depth or 0),
                      'prefix': rng.choice(('tmp', '', 'oslo-', 'a b')),
                      'suffix': rng.choice(('', '.conf', '.x.y')),
                      'pre_files': rng.randint(0, 3),
                      'repeat': rng.randint(1, 3),
                      # between two calls the directory (or its top-most
                      # created ancestor) disappears: "creating missing
                      # directories first" holds for every call
                      'rm_between': rng.choice((None, None, 'leaf', 'top')),
                      'relative': rng.random() < 0.2,
                      'fault': rng.choice(
                          (None, None, None, ['write', errno.ENOSPC],
                           ['write', errno.EIO], ['close', errno.EIO],
                           ['mkstemp', errno.EMFILE],
                           ['makedirs', errno.EACCES]))})
        elif fn == 'ensure_tree':
            c.update({'state': rng.choice(('missing', 'dir', 'file',
                                           'nested-missing', 'parent-file',
                                           'dotdot-via-symlink',
                                           'dotdot-via-symlink-exists',
                                           'trailing-slash',
                                           'dot-components')),
                      'errno': None, 'twice': rng.random() < 0.5})
        else:
            c.update({'state': rng.choice(('missing', 'file', 'dir',
                                           'parent-missing')),
                      'errno': None, 'twice': rng.random() < 0.5,
                      'default_remove': rng.random() < 0.6})
        krng = st('kinds')
        if fn != 'tempfile':
            c['path_kind'] = core.weighted(krng, [(None, 6), ('pathlib', 2),
                                                  ('bytes', 1)])
        else:
            c['content_kind'] = core.weighted(krng, [(None, 6),
                                                     ('bytearray', 1),
                                                     ('memoryview', 1),
                                                     ('array_I', 1),
                                                     ('mv_cast_H', 1)])
            if c['content_kind'] in ('array_I', 'mv_cast_H'):
                # buffers whose items are wider than a byte: len() counts
                # items, the file must hold every byte
                c['content'][1] = krng.choice((0, 4, 1000, 70000, 300000,
                                               600000))
            c['path_kind'] = core.weighted(krng, [(None, 6), ('pathlib', 2)])
        return c

    # ----------------------------------------------------------------------
    def execute(self, case):
        log = core.EventLog()
        self.stats = {'faults': {}, 'probes': {}, 'families': {}, 'sim': {},
                      'distinct': []}
        self.viols = []
        self.bump('families', case['fn'] + ('/sweep' if case.get('sweep')
                                            else ''))
        root = scratch_root()
        work = os.path.join(root, 'w')
        shutil.rmtree(work, ignore_errors=True)
        os.makedirs(work)
        fu = self.fu
        rec = {'calls': [], 'fired': [], 'opened': [], 'closed': []}
        saved = (fu.os, fu.tempfile, fu.time, fu.__dict__.get('open'))
        sleeps = []
        fu.time = type('T', (), {'sleep': staticmethod(
            lambda s: sleeps.append(s))})()
        try:
            key = getattr(self, '_x_' + case['fn'])(case, work, rec, log)
        finally:
            fu.os, fu.tempfile, fu.time = saved[0], saved[1], saved[2]
            if saved[3] is None:
                fu.__dict__.pop('open', None)
            else:
                fu.open = saved[3]
            shutil.rmtree(work, ignore_errors=True)
        self.stats['distinct'].append(core._h64(core.canon([case['fn'],
                                                            key])))
        self.stats['faulty'] = bool(self.stats['faults'])
        return {'violations': self.viols[:3], 'digest': log.digest(),
                'stats': self.stats}

    def bump(self, g, k, v=1):
        d = self.stats[g]
        d[k] = d.get(k, 0) + v

    def viol(self, cls, **d):
        self.viols.append({'cls': cls, 'detail': d})

    # compute_file_checksum ------------------------------------------------
    def _x_checksum(self, case, work, rec, log):
        fu = self.fu
        data = content_of(case['content'])
        size = len(data)
        ch = case['chunk']
        want = hashlib.new(case['alg'], data).hexdigest()
        if size == 0:
            self.bump('probes', 'empty_file')
        elif size % ch == 0:
            self.bump('probes', 'exact_multiple')
        else:
            self.bump('probes', 'final_short_chunk')
        if ch > size:
            self.bump('probes', 'chunk_larger_than_file')
        files = []
        path = os.path.join(work, 'data.bin')
        # the file also exists for real, so that a tree which does not open
        # it through the module-global open() still reads the right content
        lies = None if case.get('real') else case.get('stat_lies')
        with open(path, 'wb') as f:
            # stat_lies: what stat() says about the file is not what read()
            # delivers (procfs reports size 0, a file grows while it is read):
            # the real file behind fileno() has another length than the
            # content the simulated file hands out
            f.write(b'' if lies == 'zero' else data[:len(data) // 2]
                    if lies == 'half' else data + data[:7] + b'x'
                    if lies == 'bigger' else data)
        if case.get('real'):
            self.bump('probes', 'real_file_route')
        else:
            def sim_open(p, mode='r', *a, **k):
                if not same_path(p, path) or 'b' not in mode or \
                        'r' not in mode:
                    raise core.HarnessError('unexpected open(%r, %r)' % (
                        p, mode))
                sf = SimFile(data, short=case.get('short'),
                             fault=case.get('fault'), cyclic=True, name=path)
                sf.cap = size + 16
                files.append(sf)
                return sf
            fu.open = sim_open
        try:
            if case.get('default_args') and case['alg'] == 'sha256':
                got = fu.compute_file_checksum(as_kind(
                    path, case.get('path_kind')))
            else:
                got = fu.compute_file_checksum(as_kind(
                    path, case.get('path_kind')), read_chunksize=ch,
                                               algorithm=case['alg'])
            out = ('ok', got)
        except core.StepCapExceeded:
            out = ('nonterminating',)
        except OSError as e:
            out = ('oserror', e.errno)
        except Exception as e:
            out = ('exc', type(e).__name__)
        sf = files[0] if files else None
        fired = bool(sf and case.get('fault') and
                     sf.reads > case['fault']['at'])
        if sf is not None:
            self.bump('sim', 'reads', sf.reads)
            self.bump('sim', 'bytes', sf.pos)
            if case.get('short'):
                self.bump('faults', 'short_read')
        log.add('checksum', case['alg'], ch, size, out, fired)
        if lies and not files:
            # the tree did not go through the open() seam: it has read the
            # real file, whose content is deliberately different
            self.bump('probes', 'open_seam_unavailable')
            return ['seam-unavailable']
        if lies:
            self.bump('faults', 'size_metadata_disagrees')
        if out[0] == 'nonterminating':
            self.viol('checksum_does_not_terminate', chunk=ch, size=size)
        elif fired:
            self.bump('faults', 'read_error')
            if out != ('oserror', case['fault']['errno']):
                self.viol('read_error_not_propagated', got=list(out),
                          errno=case['fault']['errno'])
            if sf.closed < 1:
                self.bump('probes', 'file_left_open')
        elif out[0] != 'ok':
            self.viol('checksum_raised', got=list(out))
        else:
            if out[1] != want:
                self.viol('checksum_mismatch', alg=case['alg'], chunk=ch,
                          size=size, short=case.get('short'))
            if sf is not None:
                # how often the file is read past its end and whether it is
                # closed are not part of the statement: probes
                if sf.reads > sf.nonempty_reads + 1:
                    self.bump('probes', 'checksum_reads_after_eof')
                if sf.closed < 1:
                    self.bump('probes', 'file_left_open')
        return ['size%%chunk=%s' % ('0' if size and size % ch == 0 else
                                    'r' if size else 'empty'),
                ch if ch in CHUNKS else '>size', case['alg'],
                bool(case.get('short')), fired, bool(case.get('real'))]

    # several callers at once --------------------------------------------
    def _x_concurrent(self, case, work, rec, log):
        """2-3 compute_file_checksum / last_bytes calls in flight at the same
        time; every read on a simulated file is a switch point (real reads
        release the GIL, greenthreads switch on I/O)."""
        import random
        fu = self.fu
        subs = case['subs']
        files = {}
        results = {}
        yielders = {}

        class YieldingFile(SimFile):
            def __init__(self_, tid, *a, **k):
                super().__init__(*a, **k)
                self_.tid = tid

            def read(self_, size=-1):
                d = super().read(size)
                y = yielders.get(self_.tid)
                if y:
                    y()
                return d

            def readinto(self_, b):
                d = SimFile.read(self_, len(b))
                b[:len(d)] = d
                y = yielders.get(self_.tid)
                if y:
                    y()        # pre-empted right after the I/O completed
                return len(d)
        paths = {}
        for i, sub in enumerate(subs):
            pth = os.path.join(work, 'c%d.bin' % i)
            paths[pth] = i
            with open(pth, 'wb') as f:
                f.write(content_of(sub['content']))

        def sim_open(p, mode='r', *a, **k):
            i = paths.get(p)
            if i is None or 'b' not in mode:
                raise core.HarnessError('unexpected open(%r, %r)' % (p, mode))
            sf = YieldingFile(i, content_of(subs[i]['content']),
                              short=subs[i].get('short'), cyclic=True,
                              name=p)
            files[i] = sf
            return sf
        fu.open = sim_open

        def body(i, sub):
            def run(yield_fn):
                yielders[i] = yield_fn
                pth = os.path.join(work, 'c%d.bin' % i)
                try:
                    if sub['fn'] == 'checksum':
                        results[i] = ('ok', fu.compute_file_checksum(
                            pth, read_chunksize=sub['chunk'],
                            algorithm=sub['alg']))
                    else:
                        results[i] = ('ok', fu.last_bytes(pth, sub['n']))
                except Exception as e:
                    results[i] = ('exc', type(e).__name__)
            return run
        trace = []
        tasks.run_tasks(case['engine'],
                        [body(i, sub) for i, sub in enumerate(subs)],
                        random.Random(case['sched_seed']), trace)
        switches = sum(1 for a, b in zip(trace, trace[1:]) if a != b)
        if switches:
            self.bump('faults', 'task_switch_at_io', switches)
        for i, sub in enumerate(subs):
            data = content_of(sub['content'])
            got = results.get(i)
            if sub['fn'] == 'checksum':
                want = ('ok', hashlib.new(sub['alg'], data).hexdigest())
                if got != want:
                    self.viol('checksum_mismatch', alg=sub['alg'],
                              chunk=sub['chunk'], size=len(data),
                              concurrent=True, got=list(got or ()))
            else:
                take = min(sub['n'], len(data))
                want = ('ok', (data[len(data) - take:] if take else b'',
                               len(data) - take))
                if got is None or got[0] != 'ok' or tuple(got[1]) != want[1]:
                    self.viol('last_bytes_wrong', n=sub['n'], size=len(data),
                              concurrent=True)
        log.add('concurrent', case['engine'], len(trace),
                sorted((i, r[0]) for i, r in results.items()))
        return ['concurrent', len(subs), case['engine'],
                sorted(s_['fn'] for s_ in subs)]

    # last_bytes -----------------------------------------------------------
    def _x_last_bytes(self, case, work, rec, log):
        fu = self.fu
        data = content_of(case['content'])
        size = len(data)
        n = case['n']
        take = min(n, size)
        want = (data[size - take:] if take else b'', size - take)
        if n > size:
            self.bump('probes', 'n_larger_than_file')
        path = os.path.join(work, 'log.txt')
        files = []
        seek_errno = case.get('seek_errno')
        with open(path, 'wb') as f:
            f.write(data)
        if case.get('real'):
            self.bump('probes', 'real_file_route')
            seek_errno = None
        else:
            def sim_open(p, mode='r', *a, **k):
                sf = SimFile(data, seek_fault={'errno': seek_errno}
                             if seek_errno else None, name=path)
                files.append(sf)
                return sf
            fu.open = sim_open
        try:
            out = ('ok', fu.last_bytes(as_kind(path, case.get('path_kind')),
                                       n))
        except OSError as e:
            out = ('oserror', e.errno)
        except Exception as e:
            out = ('exc', type(e).__name__)
        log.add('last_bytes', size, n, out[0], seek_errno)
        if seek_errno and not (files and files[0].seeks):
            # this tree finds the tail without seeking (fstat + pread on
            # the descriptor, say): the fault never fired
            self.bump('probes', 'seek_fault_not_reached')
            seek_errno = None
        if seek_errno:
            self.bump('faults', 'seek_error')
            if out != ('oserror', seek_errno):
                self.viol('seek_error_not_propagated', got=[
                    out[0], repr(out[1])[:60]], errno=seek_errno)
        elif out[0] != 'ok':
            self.viol('last_bytes_raised', got=list(out), n=n, size=size)
        elif tuple(out[1]) != want:
            self.viol('last_bytes_wrong', n=n, size=size,
                      got=[len(out[1][0]), out[1][1]],
                      want=[len(want[0]), want[1]],
                      data_equal=out[1][0] == want[0])
        if files and files[0].closed < 1:
            self.bump('probes', 'file_left_open')
        ncls = ('0' if n == 0 else '<' if n < size else '=' if n == size
                else '>')
        return [ncls, size == 0, seek_errno, bool(case.get('real'))]

    # write_to_tempfile ----------------------------------------------------
    def _x_tempfile(self, case, work, rec, log):
        fu = self.fu
        data = content_of(case['content'])
        plan = {}
        if case.get('fault'):
            plan[case['fault'][0]] = case['fault'][1]
        fu.os = OsProxy(plan, rec)
        fu.tempfile = TempfileProxy(plan, rec)
        depth = case['depth']
        if depth is None:
            d = None
            # default location: keep it inside the scratch area
            old_td = tempfile.tempdir
            tempfile.tempdir = work
        else:
            parts = ['d%d' % i for i in range(depth)]
            d = os.path.join(work, *parts) if parts else work
            ex = os.path.join(work, *parts[:case['existing_depth']]) \
                if parts else work
            os.makedirs(ex, exist_ok=True)
        old_cwd = None
        d_arg = d
        if case.get('relative') and depth:
            # the directory is named relative to the current directory, and
            # the default temporary directory is somewhere else
            old_cwd = os.getcwd()
            os.chdir(work)
            d_arg = os.path.join(*parts)
            os.makedirs(os.path.join(work, 'tmpdefault'), exist_ok=True)
            old_td2 = tempfile.tempdir
            tempfile.tempdir = os.path.join(work, 'tmpdefault')
            self.bump('probes', 'relative_path')
        try:
            target_dir = d or work
            pre = set()
            if os.path.isdir(target_dir):
                for i in range(case['pre_files']):
                    fd, p = tempfile.mkstemp(prefix=case['prefix'],
                                             suffix=case['suffix'],
                                             dir=target_dir)
                    os.write(fd, b'old')
                    os.close(fd)
                    pre.add(p)
            results = []
            for rep in range(case['repeat']):
                before = (set(os.listdir(target_dir))
                          if os.path.isdir(target_dir) else set())
                rec['opened'].clear()
                rec['closed'].clear()
                try:
                    ck = case.get('content_kind')
                    if ck == 'array_I':
                        import array
                        payload = array.array('I')
                        payload.frombytes(data[:len(data) - len(data) % 4])
                        data = payload.tobytes()
                    elif ck == 'mv_cast_H':
                        data = data[:len(data) - len(data) % 2]
                        payload = memoryview(data).cast('H')
                    else:
                        payload = (bytearray(data) if ck == 'bytearray' else
                                   memoryview(data) if ck == 'memoryview'
                                   else data)
                    p = fu.write_to_tempfile(payload, path=as_kind(
                        d_arg, case.get('path_kind')) if d_arg else d_arg,
                                             suffix=case['suffix'],
                                             prefix=case['prefix'])
                    out = ('ok', p)
                except OSError as e:
                    out = ('oserror', e.errno)
                except Exception as e:
                    out = ('exc', type(e).__name__)
                fired = list(rec['fired'])
                log.add('tempfile', depth, out[0], fired)
                for fd in rec['opened']:
                    # is the descriptor really still open? (it may have been
                    # closed through a file object rather than os.close)
                    try:
                        os.fstat(fd)
                    except OSError:
                        continue
                    self.viol('descriptor_leaked', after=out[0],
                              fault=case.get('fault'))
                    try:
                        os.close(fd)
                    except OSError:
                        pass
                if fired:
                    self.bump('faults', 'errno_on_' + fired[0])
                    if 'write' in fired and rec['opened']:
                        self.bump('probes', 'fd_closed_after_write_error')
                    if out != ('oserror', case['fault'][1]):
                        self.viol('error_not_propagated', got=[
                            out[0], str(out[1])[:60]], fault=case['fault'])
                    break
                if out[0] != 'ok':
                    self.viol('write_to_tempfile_raised', got=list(out),
                              depth=depth)
                    break
                p = out[1]
                if old_cwd is not None and not os.path.isabs(p):
                    p = os.path.join(work, p)
                if depth and case['existing_depth'] < depth:
                    self.bump('probes', 'nested_dirs_created')
                if os.path.dirname(p) != os.path.realpath(target_dir) and \
                        os.path.dirname(p) != target_dir:
                    self.viol('tempfile_in_wrong_directory', path=p,
                              wanted=target_dir)
                base = os.path.basename(p)
                if not base.startswith(case['prefix']) or \
                        not base.endswith(case['suffix']):
                    # documented, but not part of the statement: probe
                    self.bump('probes', 'prefix_suffix_not_honoured')
                if base in before or p in pre or p in results:
                    self.viol('tempfile_not_new', path=p)
                try:
                    with open(p, 'rb') as f:
                        stored = f.read()
                except OSError as e:
                    stored = None
                    self.viol('tempfile_missing', path=p, errno=e.errno)
                if stored is not None and stored != data:
                    self.viol('tempfile_content_wrong', size=len(data),
                              stored=len(stored))
                for q in pre:
                    with open(q, 'rb') as f:
                        if f.read() != b'old':
                            self.viol('existing_file_modified', path=q)
                results.append(p)
                rmb = case.get('rm_between')
                if rmb and depth and rep + 1 < case['repeat']:
                    victim = d if rmb == 'leaf' else os.path.join(
                        work, 'd%d' % min(case['existing_depth'], depth - 1))
                    if os.path.isdir(victim) and victim != work:
                        shutil.rmtree(victim)
                        pre.clear()
                        self.bump('probes', 'directory_removed_between_calls')
        finally:
            if old_cwd is not None:
                os.chdir(old_cwd)
                tempfile.tempdir = old_td2
            if depth is None:
                tempfile.tempdir = old_td
        return [depth, case['existing_depth'], case.get('fault'),
                len(data) == 0, case['pre_files'] > 0]

    # ensure_tree ----------------------------------------------------------
    def _mkstate(self, work, state):
        p = os.path.join(work, 'target')
        if state == 'dir':
            os.makedirs(p)
        elif state == 'file':
            with open(p, 'w') as f:
                f.write('x')
        elif state == 'nested-missing':
            p = os.path.join(work, 'a', 'b', 'c', 'target')
        elif state == 'parent-file':
            with open(os.path.join(work, 'pf'), 'w') as f:
                f.write('x')
            p = os.path.join(work, 'pf', 'target')
        elif state == 'parent-missing':
            p = os.path.join(work, 'nope', 'target')
        elif state in ('dotdot-via-symlink', 'dotdot-via-symlink-exists'):
            # <symlink to a directory>/../target: the kernel resolves '..'
            # against the link's target, not textually
            os.makedirs(os.path.join(work, 'real', 'sub'))
            os.symlink(os.path.join(work, 'real', 'sub'),
                       os.path.join(work, 'link'))
            if state.endswith('exists'):
                os.makedirs(os.path.join(work, 'real', 'target'))
            p = os.path.join(work, 'link', '..', 'target')
        elif state == 'trailing-slash':
            p = os.path.join(work, 'target') + '/'
        elif state == 'dot-components':
            os.makedirs(os.path.join(work, 'a'))
            p = os.path.join(work, 'a', '.', 'b', '..', 'target')
        return p

    def _x_ensure_tree(self, case, work, rec, log):
        fu = self.fu
        p = self._mkstate(work, case['state'])
        e = case.get('errno')
        fu.os = OsProxy({'makedirs': e} if e is not None else {}, rec,
                        style=case.get('style'))
        outs = []
        for _rep in range(2 if case.get('twice') else 1):
            try:
                fu.ensure_tree(as_kind(p, case.get('path_kind')))
                outs.append(('ok',))
            except OSError as ex:
                outs.append(('oserror', ex.errno))
            except Exception as ex:
                outs.append(('exc', type(ex).__name__))
        log.add('ensure_tree', case['state'], e, outs)
        if e is not None and 'makedirs' not in rec['calls']:
            # the tree under test does not create directories through
            # fileutils.os.makedirs: the injection point is not in effect
            self.bump('probes', 'makedirs_seam_unavailable')
        elif e is not None:
            self.bump('faults', 'errno_on_makedirs')
            swallowed_ok = (e == errno.EEXIST and case['state'] == 'dir')
            if e == errno.EEXIST:
                self.bump('probes', 'EEXIST_on_dir' if case['state'] == 'dir'
                          else 'EEXIST_on_file')
            want = ('ok',) if swallowed_ok else ('oserror', e)
            if isinstance(e, str):
                self.bump('faults', 'non_oserror_on_makedirs')
                want = ('exc', e)
            if outs[0] != want:
                self.viol('ensure_tree_errno_handling', errno=e,
                          name=errno.errorcode.get(e), state=case['state'],
                          got=list(outs[0]), want=list(want))
        else:
            st = case['state']
            if st in ('missing', 'dir', 'nested-missing',
                      'dotdot-via-symlink', 'dotdot-via-symlink-exists',
                      'trailing-slash'):
                if st.startswith('dotdot') and sorted(os.listdir(work)) != \
                        ['link', 'real']:
                    self.viol('ensure_tree_created_elsewhere', state=st,
                              entries=sorted(os.listdir(work)))
                for o in outs:
                    if o != ('ok',):
                        self.viol('ensure_tree_failed', state=st,
                                  got=list(o))
                if not os.path.isdir(p):
                    self.viol('ensure_tree_did_not_create', state=st)
                if st == 'dir':
                    self.bump('probes', 'EEXIST_on_dir')
            elif st == 'dot-components':
                # a/./b/../target with b missing: os.makedirs creates b on the
                # way (documented confusion with '..'); all that is asserted
                # is the outcome the statement names
                if outs[0] == ('ok',) and not os.path.isdir(p):
                    self.viol('ensure_tree_did_not_create', state=st)
            elif st == 'file':
                self.bump('probes', 'EEXIST_on_file')
                if outs[0][0] != 'oserror':
                    self.viol('ensure_tree_file_in_the_way', got=list(outs[0]))
            else:
                if outs[0][0] != 'oserror':
                    self.viol('ensure_tree_parent_is_file',
                              got=list(outs[0]))
        return [case['state'], e, bool(case.get('twice'))]

    # delete_if_exists -----------------------------------------------------
    def _x_delete_if_exists(self, case, work, rec, log):
        fu = self.fu
        p = self._mkstate(work, case['state'])
        e = case.get('errno')
        calls = []
        outs = []
        for _rep in range(2 if case.get('twice') else 1):
            try:
                if e is not None:
                    def remover(path):
                        calls.append(path)
                        raise make_oserror(e, case.get('style'), path)
                    fu.delete_if_exists(p, remove=remover)
                elif case.get('default_remove', True):
                    fu.delete_if_exists(as_kind(p, case.get('path_kind')))
                else:
                    def remover(path):
                        calls.append(path)
                        os.unlink(path)
                    fu.delete_if_exists(p, remove=remover)
                outs.append(('ok',))
            except OSError as ex:
                outs.append(('oserror', ex.errno))
            except Exception as ex:
                outs.append(('exc', type(ex).__name__))
        log.add('delete_if_exists', case['state'], e, outs)
        if e is not None:
            self.bump('faults', 'errno_on_remove')
            want = ('ok',) if e == errno.ENOENT else ('oserror', e)
            if isinstance(e, str):
                self.bump('faults', 'non_oserror_on_remove')
                want = ('exc', e)
            if e == errno.ENOENT:
                self.bump('probes', 'ENOENT_swallowed')
            if outs[0] != want:
                self.viol('delete_if_exists_errno_handling', errno=e,
                          name=errno.errorcode.get(e), got=list(outs[0]),
                          want=list(want))
            if calls != [p]:
                self.bump('probes', 'remove_not_called_once_with_path')
        else:
            st = case['state']
            if st in ('missing', 'file', 'parent-missing'):
                if st != 'file':
                    self.bump('probes', 'ENOENT_swallowed')
                for o in outs:
                    if o != ('ok',):
                        self.viol('delete_if_exists_failed', state=st,
                                  got=list(o))
                if os.path.lexists(p):
                    self.viol('delete_if_exists_did_not_delete', state=st)
            else:
                if outs[0][0] != 'oserror' or outs[0][1] == errno.ENOENT:
                    self.viol('delete_if_exists_swallowed_error', state=st,
                              got=list(outs[0]))
                if not os.path.isdir(p):
                    self.viol('delete_if_exists_removed_directory')
        return [case['state'], e, bool(case.get('twice')),
                bool(case.get('default_remove'))]

    def subkey(self, case, v):
        return case['fn']

    def reducers(self, case):
        for k in ('short', 'fault', 'seek_errno', 'twice', 'real', 'stat_lies',
                  'pre_files', 'default_args', 'rm_between', 'relative'):
            if case.get(k):
                c = copy.deepcopy(case)
                c[k] = [] if k == 'short' else (0 if k == 'pre_files'
                                                else None)
                yield c
        if case.get('repeat', 1) > 1:
            c = copy.deepcopy(case)
            c['repeat'] = 1
            yield c
        if case.get('content') and case['content'][1] > 0:
            for sz in (0, 1, case['content'][1] // 2, case['content'][1] - 1):
                if sz != case['content'][1]:
                    c = copy.deepcopy(case)
                    c['content'][1] = sz
                    yield c
        if case.get('depth'):
            c = copy.deepcopy(case)
            c['depth'] -= 1
            c['existing_depth'] = min(c['existing_depth'], c['depth'])
            yield c

    def extra_coverage(self, agg):
        return {'errno_sweep': {'errnos': len(ERRNOS),
                                'error_construction_styles': 3,
                                'placements': len(self.sweep),
                                'complete_for': 'errno x {makedirs: path '
                                'missing/dir/file; remove: missing/file}'}}


CHECK = C20()
