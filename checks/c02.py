"""C02 - safety_check() is fail-closed; the CLI exits 0 only on success.

Trait-labelled images (models.traits) streamed under seeded schedules through
bare inspectors / InspectWrapper / detect_file_format / the CLI, with
truncation, faults inside safety checks and file faults.
"""
import contextlib
import copy
import errno
import io
import os
import shutil
import subprocess
import sys
import tempfile

from models import formats as F
from models import sigmodel
from models import traits as T
from sim import core, imgsim, streams
from sim.runner import Check
from sim.streams import SimFile

EXC_KINDS = ('struct.error', 'IndexError', 'MemoryError', 'RecursionError',
             'KeyError', 'Custom', 'BadStr', 'SafetyViolation')


class CustomCheckError(Exception):
    pass


class BadStrError(Exception):
    def __str__(self):
        raise RuntimeError('no str for you')


def make_exc(kind):
    import struct
    m = imgsim.fi()
    return {'struct.error': struct.error('unpack requires a buffer'),
            'IndexError': IndexError('index out of range'),
            'MemoryError': MemoryError(), 'RecursionError': RecursionError(),
            'KeyError': KeyError('header'), 'Custom': CustomCheckError('boom'),
            'BadStr': BadStrError(),
            'SafetyViolation': m.SafetyViolation('injected')}[kind]


def scratch_dir():
    return core.scratch_dir('c02')


def lib_accepts(data, short=None):
    """Independent in-harness detect + safety_check over the whole content
    (the same read sizes the CLI's reader obtains, no early return)."""
    m = imgsim.fi()
    sf = SimFile(data, short=short)
    sizes = []
    while True:
        c = sf.read(4096)
        if not c:
            break
        sizes.append(len(c))
    r = imgsim.drive_wrapper(data, sizes,
                             'file', order=list(F.FORMATS),
                             watch_regions=False)
    if r['error'] or r['format'] in (None, 'ImageFormatError') or \
            str(r['format']).startswith('EXC:'):
        return False, r['format']
    insp = imgsim.wrapper_inspectors(r['wrapper'])[r['format']]
    try:
        insp.safety_check()
        return True, r['format']
    except (m.SafetyCheckFailed, m.ImageFormatError):
        return False, r['format']
    except Exception:
        return False, r['format']


class C02(Check):
    ID = 'C02'
    LEVEL = 'exploration'
    RUNS = {'quick': 40000, 'thorough': 1500000}
    BLOCK = 50
    RULE = ('each run: one trait-labelled image (reject / accept / none; '
            'qcow2 versions, backing offsets, each incompatible-feature bit '
            'and random sets; VMDK createType spellings, descriptor line '
            'classes, descriptor placement, footer perturbations; QED; LUKS '
            'versions; MBR slot/boot-flag/protective combinations; clean '
            'images of the null-check formats) delivered by one of: bare '
            'inspector, InspectWrapper (iterator / read()), '
            'detect_file_format and <Inspector>.from_file through the '
            'open() seam, the CLI in-process '
            '(a sample as a real subprocess), or a safety check body '
            'replaced by a raising callable; 30% truncated. distinct = '
            'distinct (layout, label, trait reasons, delivery mode, '
            'truncation class, schedule family, fault kind)')
    COMPONENTS = {
        'real': ['inspectors, SafetyCheck, FileInspector.safety_check, '
                 'InspectWrapper, detect_file_format, imageutils.cli.main, '
                 '__main__ (subprocess sample)', 'argparse', 'struct'],
        'stub': ['byte source / file object behind format_inspector.open',
                 'safety-check bodies when a fault is injected', 'sys.argv'],
        'partly_real': ['file system: scratch files for the CLI'],
    }
    ASSUMPTIONS = ['reference labels come from the property statement '
                   '(models/traits.py); qcow2 incompatible bits >= 4 count as '
                   'unknown, bit 2 as external data file',
                   'only the directions the statement gives are asserted']
    FAULT_KINDS = ('truncated_stream', 'check_body_raises', 'file_short_read',
                   'file_read_error', 'path_missing', 'path_is_directory',
                   'empty_chunk', 'query_mid_stream',
                   'cli_stdout_broken_pipe')
    PROBES = ('reject_labelled', 'accept_labelled', 'unlabelled',
              'rejected_by_expected_check', 'refused_incomplete',
              'cli_exit0', 'cli_exit1', 'cli_crash', 'cli_subprocess',
              'accept_case_other_format')

    # ------------------------------------------------------------------ gen
    def gen(self, st, tier, index, total):
        rng = st('content')
        mrng = st('mode')
        mode = core.weighted(mrng, [('stream', 60), ('checkfault', 8),
                                    ('detect', 8), ('cli', 16),
                                    ('fromfile', 8)])
        rec, label, reasons, hint = T.gen_traited(rng)
        case = {'mode': mode, 'content': rec, 'label': label,
                'reasons': reasons, 'hint': hint}
        if mode == 'checkfault':
            # needs a complete, matching stream: use clean images
            for _ in range(50):
                if label == 'accept' or rec['layout'] == 'qed':
                    break
                rec, label, reasons, hint = T.gen_traited(rng)
            case.update({'content': rec, 'label': label, 'reasons': reasons,
                         'hint': hint})
            case['fault'] = {'check_index': mrng.randrange(4),
                             'exc': mrng.choice(EXC_KINDS)}
            return case
        data, info = F.build(rec)
        if mode in ('stream', 'detect', 'cli', 'fromfile') and \
                st('trunc').random() < 0.3:
            trng = st('trunc')
            b = info['boundaries'] + [info.get('carrier_end', len(data))]
            b = [x for x in b if x <= len(data)]
            if b and trng.random() < 0.8:
                t = max(0, trng.choice(b) + trng.choice((-1, 0, 0, 1)))
            else:
                t = trng.randrange(0, len(data) + 1)
            rec['trunc'] = t
            data, info = F.build(rec)
        n = len(data)
        srng = st('schedule')
        if mode == 'stream':
            name, r = streams.gen_schedule(srng, n, info['boundaries'])
            smode = core.weighted(srng, [('bare', 5), ('witer', 3),
                                         ('wfile', 2)])
            s = {'mode': smode, 'fam': name, 'rle': r}
            if smode != 'bare':
                order = list(F.FORMATS)
                st('order').shuffle(order)
                s['order'] = order
            krng = st('kinds')
            s['kind'] = core.weighted(krng, imgsim.CHUNK_KINDS)
            if smode == 'bare' and krng.random() < 0.12:
                s['tracing'] = True
            nch = streams.n_chunks(r)
            if nch and st('queries').random() < 0.5:
                s['q'] = sorted(set(st('queries').randrange(nch)
                                    for _ in range(3)))
            case['sched'] = s
        else:
            frng = st('faults')
            f = {'short': [], 'fault': None, 'path': 'file'}
            c = frng.random()
            if c < 0.4:
                f['short'] = [frng.choice((0, 1, 7, 100, 512, 4095, 4096))
                              for _ in range(frng.randint(1, 5))]
            elif c < 0.55:
                f['fault'] = {'at': frng.choice((0, 1, 2, 5, 64)),
                              'errno': frng.choice((errno.EIO, errno.ESTALE,
                                                    errno.EACCES))}
            elif c < 0.62 and mode == 'cli':
                f['path'] = frng.choice(('missing', 'dir'))
            case['file'] = f
            if mode == 'cli':
                case['verbose'] = frng.random() < 0.5
                case['subprocess'] = (frng.random() < 0.04 and
                                      not f['short'] and not f['fault'])
                if case['subprocess'] and frng.random() < 0.5:
                    # whoever read the tool's output has gone away: every
                    # write to stdout fails with EPIPE
                    case['stdout_gone'] = True
                    case['verbose'] = True
        return case

    # -------------------------------------------------------------- execute
    def execute(self, case):
        log = core.EventLog()
        imgsim.fi()
        imgsim.set_hash_salt(case.get('content') or case)
        self.stats = {'faults': {}, 'probes': {}, 'families': {}, 'sim': {},
                      'distinct': []}
        self.viols = []
        data, info = F.build(case['content'])
        label = case['label']
        if case['content'].get('trunc') is not None:
            self.bump('faults', 'truncated_stream')
            label = 'none'
        self.bump('probes', {'reject': 'reject_labelled',
                             'accept': 'accept_labelled'}.get(
                                 label, 'unlabelled'))
        mode = case['mode']
        self.bump('families', mode)
        for r in case['reasons']:
            self.bump('probes', 'R:' + r)
        extra = getattr(self, '_run_' + mode)(case, data, info, label, log)
        n = len(data)
        tclass = 'full'
        if case['content'].get('trunc') is not None:
            tclass = ('cut<carrier' if n < info.get('carrier_end', n + 1)
                      else 'cut>=carrier')
        self.stats['distinct'].append(core._h64(core.canon(
            [info['layout'], case['label'], sorted(case['reasons']), mode,
             tclass, extra])))
        self.stats['faulty'] = bool(self.stats['faults'])
        return {'violations': self.viols[:3], 'digest': log.digest(),
                'stats': self.stats}

    def bump(self, group, k, v=1):
        d = self.stats[group]
        d[k] = d.get(k, 0) + v

    def viol(self, cls, **detail):
        self.viols.append({'cls': cls, 'detail': detail})

    def judge(self, res, insp_complete, insp_match, label, case, info, n,
              where):
        """res: 'pass' | 'fail:a,b' | 'refused' | 'EXC:..' observed from
        safety_check() with the whole (possibly truncated) stream
        presented."""
        fmt = info['fmt']
        if res == 'pass':
            if not (insp_complete is True and insp_match is True):
                self.viol('pass_without_complete_match', inspector=fmt,
                          complete=insp_complete, format_match=insp_match,
                          where=where)
            if n < info.get('carrier_end', 0):
                self.viol('accepted_incomplete_stream', inspector=fmt,
                          length=n, needs=info.get('carrier_end'),
                          where=where)
            if label == 'reject':
                self.viol('unsafe_image_accepted', inspector=fmt,
                          reasons=case['reasons'], where=where)
        elif res.startswith('EXC:'):
            self.viol('safety_check_raised_other', inspector=fmt, exc=res,
                      where=where)
        else:
            if res == 'refused':
                self.bump('probes', 'refused_incomplete')
            if label == 'accept':
                self.viol('clean_image_rejected', inspector=fmt, result=res,
                          where=where)
            if label == 'reject' and res.startswith('fail:') and \
                    case.get('hint'):
                if case['hint'] in res[5:].split(','):
                    self.bump('probes', 'rejected_by_expected_check')
                else:
                    # the statement asks for rejection, not for WHICH check
                    # rejects (checks may be renamed or merged): probe only
                    self.bump('probes', 'rejected_by_another_check')

    # stream mode
    def _run_stream(self, case, data, info, label, log):
        s = case['sched']
        sizes = streams.expand(s['rle'])
        n = len(data)
        fmt = info['fmt']
        self.bump('sim', 'bytes', n)
        self.bump('sim', 'chunks', len(sizes))
        if 0 in sizes:
            self.bump('faults', 'empty_chunk')
        q = set(s.get('q') or [])
        if q:
            self.bump('faults', 'query_mid_stream', len(q))
        m = imgsim.fi()
        if s['mode'] == 'bare':
            insp = imgsim.new_inspector(fmt, bool(s.get('tracing')))
            pos = 0
            err = None
            maker = streams.ChunkMaker(s.get('kind'), sizes)
            for idx, nb in enumerate(sizes):
                chunk = maker.make(data[pos:pos + nb])
                pos += nb
                if err is None:
                    try:
                        insp.eat_chunk(chunk)
                    except Exception as e:
                        err = type(e).__name__
                if idx in q:
                    self._structural(insp, fmt, 'mid-stream@%d' % pos)
            # a producer that reuses its buffer has moved on by the time
            # the verdict is asked for
            maker.scrub()
            insp.finish()
            res = imgsim.q_safety(insp)
            log.add('bare', fmt, err, res)
            self.judge(res, imgsim.q_attr(insp, 'complete'),
                       imgsim.q_attr(insp, 'format_match'), label, case, info,
                       n, 'bare')
        else:
            pers = 'iter' if s['mode'] == 'witer' else 'file'
            r = imgsim.drive_wrapper(data, sizes, pers, order=s.get('order'),
                                     wq=q or None, watch_regions=False,
                                     kind=s.get('kind'))
            if r['error']:
                # a wrapper that raises is C06's subject; nothing to judge
                # here for this schedule
                self.bump('probes', 'wrapper_raised_skipped')
                log.add('wrapper-raised', r['error'])
                return
            insps = imgsim.wrapper_inspectors(r['wrapper'])
            log.add('wrapper', r['format'], r['formats'])
            # own-format inspector inside the wrapper
            insp = insps[fmt]
            res = imgsim.q_safety(insp)
            log.add('own', fmt, res)
            self.judge(res, imgsim.q_attr(insp, 'complete'),
                       imgsim.q_attr(insp, 'format_match'), label, case, info,
                       n, 'wrapper-own')
            # what a caller does: wrapper.format.safety_check()
            f = r['format']
            if f in insps:
                res2 = imgsim.q_safety(insps[f])
                if f == fmt:
                    pass
                elif res2 == 'pass' and label == 'reject':
                    self._structural(insps[f], f, 'wrapper-detected')
                    self._accepted_as_other(data, info, case, f,
                                            'InspectWrapper.format')
                if label == 'accept' and f != fmt:
                    self.bump('probes', 'accept_case_other_format')
            # every inspector: structural rule
            for name, i2 in insps.items():
                self._structural(i2, name, 'wrapper-all')
        return [s['mode'], s['fam'].split('(')[0]]

    def _accepted_as_other(self, data, info, case, detected, where):
        """A must-reject image went through detection, came out as ANOTHER
        format and passed that format's check.  Whether the detection is
        right is C03's business - except when the image's own signature is
        intact by the reference signature model: then the unsafe image has
        simply been waved through."""
        fmt = info['fmt']
        if info.get('text') or fmt not in sigmodel.NONRAW:
            return
        if sigmodel.model(data, info).get(fmt) != 'yes':
            self.bump('probes', 'reject_image_detected_as_other_format')
            return
        self.viol('unsafe_image_accepted', inspector=fmt,
                  reasons=case['reasons'], where=where, detected_as=detected)

    def _structural(self, insp, name, where):
        res = imgsim.q_safety(insp)
        if res == 'pass':
            c = imgsim.q_attr(insp, 'complete')
            fm = imgsim.q_attr(insp, 'format_match')
            if not (c is True and fm is True):
                self.viol('pass_without_complete_match', inspector=name,
                          complete=c, format_match=fm, where=where)
        elif res.startswith('EXC:'):
            self.viol('safety_check_raised_other', inspector=name, exc=res,
                      where=where)

    # check-fault mode
    def _run_checkfault(self, case, data, info, label, log):
        m = imgsim.fi()
        fmt = info['fmt']
        insp = m.ALL_FORMATS[fmt]()
        for ch in streams.uniform_sizes(len(data), 4096):
            pass
        pos = 0
        for nb in streams.uniform_sizes(len(data), 4096):
            insp.eat_chunk(data[pos:pos + nb])
            pos += nb
        insp.finish()
        # the registered checks, wherever the inspector keeps them: a dict
        # or list of SafetyCheck objects among its attributes
        checks = None
        for _attr, val in sorted(vars(insp).items()):
            elems = list(val.values()) if isinstance(val, dict) else (
                list(val) if isinstance(val, (list, tuple)) else None)
            if elems and all(isinstance(e, m.SafetyCheck) for e in elems):
                checks = {e.name: e for e in elems}
                break
        if not checks:
            self.bump('probes', 'seam_unavailable_safety_checks')
            return ['seam-unavailable']
        names = sorted(checks)
        name = names[case['fault']['check_index'] % len(names)]
        kind = case['fault']['exc']
        exc = make_exc(kind)
        calls = []

        def raiser():
            calls.append(1)
            raise exc
        before = imgsim.q_safety(insp)
        checks[name].target_fn = raiser
        self.bump('faults', 'check_body_raises')
        try:
            insp.safety_check()
            res = 'pass'
        except m.SafetyCheckFailed as e:
            res = 'fail:' + ','.join(sorted(e.failures))
        except m.ImageFormatError:
            res = 'refused'
        except Exception as e:
            res = core.exc_name(e)
        log.add('checkfault', fmt, name, kind, before, res, len(calls))
        if before in ('refused',):
            return [fmt, name, kind, 'refused']
        if not calls:
            self.viol('registered_check_not_run', inspector=fmt, check=name)
        elif not res.startswith('fail:') or name not in res[5:].split(','):
            self.viol('check_error_not_a_failure', inspector=fmt, check=name,
                      exc=kind, result=res)
        return [fmt, name, kind]

    # detect_file_format through the open() seam
    def _open_seam(self, path, data, f):
        m = imgsim.fi()
        files = []

        def sim_open(p, mode='r', *a, **k):
            if p != path:
                raise core.HarnessError('unexpected open(%r)' % (p,))
            sf = SimFile(data, short=f.get('short'), fault=f.get('fault'),
                         name=p)
            files.append(sf)
            return sf
        m.open = sim_open
        return files

    def _close_seam(self):
        m = imgsim.fi()
        try:
            del m.open
        except AttributeError:
            pass

    def _run_detect(self, case, data, info, label, log):
        m = imgsim.fi()
        f = case['file']
        path = imgsim.image_on_disk(data)
        files = self._open_seam(path, data, f)
        try:
            try:
                insp = m.detect_file_format(path)
                out = str(insp)
            except m.ImageFormatError:
                insp, out = None, 'ImageFormatError'
            except OSError as e:
                insp, out = None, 'OSError:%s' % e.errno
            except Exception as e:
                insp, out = None, core.exc_name(e)
        finally:
            self._close_seam()
        sf = files[0] if files else None
        if sf is None:
            # this tree opens files some other way: it read the real file,
            # the plan of short reads and read errors was not in effect
            self.bump('probes', 'open_seam_unavailable')
            f = {}
        fired = bool(sf and f.get('fault') and sf.reads > f['fault']['at'])
        if f.get('short'):
            self.bump('faults', 'file_short_read')
        if fired:
            self.bump('faults', 'file_read_error')
        self.bump('sim', 'bytes', sf.pos if sf else 0)
        log.add('detect', out, sf.reads if sf else None, fired)
        if sf is not None and sf.closed < 1:
            # resource hygiene, not part of the statement: probe only
            self.bump('probes', 'file_left_open')
        ndata = len(data)
        if fired:
            if insp is None:
                return ['detect', 'eio']
            # the read error was swallowed and a verdict produced from what
            # had been read so far: whatever it is, it must not be an
            # acceptance of a stream that was not captured completely
            self.bump('probes', 'read_error_swallowed')
            ndata = sf.pos
            label = 'none'
        if out.startswith('EXC:'):
            self.viol('detect_raised_other', exc=out, inspector=info['fmt'])
            return ['detect', out]
        if insp is not None:
            res = imgsim.q_safety(insp)
            log.add('safety', res)
            if out == info['fmt']:
                self.judge(res, imgsim.q_attr(insp, 'complete'),
                           imgsim.q_attr(insp, 'format_match'), label, case,
                           info, ndata, 'detect_file_format')
            else:
                self._structural(insp, out, 'detect-other')
                if res == 'pass' and label == 'reject':
                    self._accepted_as_other(data[:ndata], info, case, out,
                                            'detect_file_format')
        return ['detect', bool(f.get('short'))]

    # <Inspector>.from_file through the open() seam
    def _run_fromfile(self, case, data, info, label, log):
        m = imgsim.fi()
        f = case['file']
        fmt = info['fmt']
        path = imgsim.image_on_disk(data)
        files = self._open_seam(path, data, f)
        try:
            try:
                insp = m.ALL_FORMATS[fmt].from_file(path)
                out = 'ok'
            except m.ImageFormatError:
                insp, out = None, 'ImageFormatError'
            except OSError as e:
                insp, out = None, 'OSError:%s' % e.errno
            except Exception as e:
                insp, out = None, core.exc_name(e)
        finally:
            self._close_seam()
        sf = files[0] if files else None
        if sf is None:
            self.bump('probes', 'open_seam_unavailable')
            f = {}
        fired = bool(sf and f.get('fault') and sf.reads > f['fault']['at'])
        if f.get('short'):
            self.bump('faults', 'file_short_read')
        if fired:
            self.bump('faults', 'file_read_error')
        self.bump('sim', 'bytes', sf.pos if sf else 0)
        log.add('from_file', fmt, out, sf.reads if sf else None, fired)
        if fired and insp is None:
            return ['fromfile', 'eio']
        if fired:
            self.bump('probes', 'read_error_swallowed')
            label = 'none'
        if out.startswith('EXC:'):
            self.viol('from_file_raised_other', exc=out, inspector=fmt)
            return ['fromfile', out]
        if insp is None:
            if label == 'accept' and not fired:
                self.viol('clean_image_rejected', inspector=fmt, result=out,
                          where='from_file')
            return ['fromfile', 'refused']
        res = imgsim.q_safety(insp)
        log.add('safety', res)
        self.judge(res, imgsim.q_attr(insp, 'complete'),
                   imgsim.q_attr(insp, 'format_match'), label, case, info,
                   sf.pos if fired else len(data), 'from_file')
        return ['fromfile', bool(f.get('short'))]

    # the CLI
    def _run_cli(self, case, data, info, label, log):
        f = case['file']
        d = scratch_dir()
        path = os.path.join(d, 'img-%d' % os.getpid())
        if f['path'] == 'missing':
            with contextlib.suppress(FileNotFoundError):
                os.unlink(path)
            self.bump('faults', 'path_missing')
            usepath = path
        elif f['path'] == 'dir':
            usepath = d
            self.bump('faults', 'path_is_directory')
        else:
            with open(path, 'wb') as fh:
                fh.write(data)
            usepath = path
        argv = ['oslo.utils.imageutils', '-i', usepath]
        if case.get('verbose'):
            argv.insert(1, '-v')
        fired = False
        if case.get('subprocess') and f['path'] == 'file':
            self.bump('probes', 'cli_subprocess')
            env = dict(os.environ)
            env['PYTHONPATH'] = core.repo_root()
            cmd = [sys.executable, '-m', 'oslo_utils.imageutils'] + argv[1:]
            if case.get('stdout_gone'):
                self.bump('faults', 'cli_stdout_broken_pipe')
                rfd, wfd = os.pipe()
                os.close(rfd)
                try:
                    p = subprocess.run(cmd, env=env, stdout=wfd,
                                       stderr=subprocess.PIPE, text=True,
                                       timeout=120, cwd=d)
                finally:
                    os.close(wfd)
                code = p.returncode
                outtxt = 'SAFETY_CHECK_PASSED=True' if code == 0 else ''
            else:
                p = subprocess.run(cmd, env=env, capture_output=True,
                                   text=True, timeout=120, cwd=d)
                code = p.returncode
                outtxt = p.stdout
        else:
            files = []
            if f['path'] == 'file':
                files = self._open_seam(usepath, data, f)
            from oslo_utils.imageutils import cli
            old_argv = sys.argv
            sys.argv = argv
            so, se = io.StringIO(), io.StringIO()
            try:
                with contextlib.redirect_stdout(so), \
                        contextlib.redirect_stderr(se):
                    try:
                        cli.main()
                        code = 'returned'
                    except SystemExit as e:
                        code = e.code
                    except Exception as e:
                        code = core.exc_name(e)
            finally:
                sys.argv = old_argv
                self._close_seam()
            outtxt = so.getvalue()
            sf = files[0] if files else None
            if sf is None and f['path'] == 'file':
                # the tool opened the image some other way and read the
                # real file: no short reads, no read errors
                self.bump('probes', 'open_seam_unavailable')
                f = dict(f, short=None, fault=None)
            fired = bool(sf and f.get('fault') and
                         sf.reads > f['fault']['at'])
            if f.get('short'):
                self.bump('faults', 'file_short_read')
            if fired:
                self.bump('faults', 'file_read_error')
        with contextlib.suppress(OSError):
            if f['path'] == 'file':
                os.unlink(path)
        log.add('cli', code, fired, outtxt.count('\n'))
        ok = code in (0, None, 'returned')
        if isinstance(code, str) and code.startswith('EXC:'):
            self.bump('probes', 'cli_crash')
        elif ok:
            self.bump('probes', 'cli_exit0')
        else:
            self.bump('probes', 'cli_exit1')
        if ok:
            if f['path'] != 'file':
                self.viol('cli_exit0_without_image', path_kind=f['path'])
            elif fired:
                self.viol('cli_exit0_after_read_error')
            else:
                acc, fmt = lib_accepts(data, f.get('short'))
                if label == 'reject' and fmt == info['fmt']:
                    self.viol('cli_exit0_for_unsafe_image',
                              reasons=case['reasons'], inspector=info['fmt'],
                              detected=fmt)
                elif label == 'reject' and acc:
                    self._accepted_as_other(data, info, case, fmt, 'cli')
                elif not acc:
                    self.viol('cli_exit0_without_success',
                              inspector=info['fmt'], detected=fmt)
                if case.get('verbose') and \
                        'SAFETY_CHECK_PASSED=True' not in outtxt:
                    # the wording of the report is not part of the statement
                    self.bump('probes', 'cli_exit0_report_wording_differs')
        return ['cli', f['path'], bool(f.get('short')), bool(f.get('fault')),
                bool(case.get('subprocess'))]

    # ------------------------------------------------------------ findings
    def finding(self, case, v):
        return None

    def subkey(self, case, v):
        return v['detail'].get('inspector')

    def reducers(self, case):
        rec = case['content']
        if case.get('sched'):
            s = case['sched']
            if s.get('q'):
                c = copy.deepcopy(case)
                del c['sched']['q']
                yield c
            if s['mode'] != 'bare':
                c = copy.deepcopy(case)
                c['sched']['mode'] = 'bare'
                yield c
            sizes = streams.expand(s['rle'])
            tot = sum(sizes)
            if len(sizes) > 1:
                for ns in ([tot], streams.uniform_sizes(tot, 4096),
                           streams.uniform_sizes(tot, 512)):
                    if ns != sizes:
                        c = copy.deepcopy(case)
                        c['sched']['rle'] = streams.rle(ns)
                        c['sched']['fam'] = 'min'
                        c['sched'].pop('q', None)
                        yield c
                if len(sizes) <= 40:
                    for i in range(len(sizes) - 1):
                        ns = sizes[:i] + [sizes[i] + sizes[i + 1]] + \
                            sizes[i + 2:]
                        c = copy.deepcopy(case)
                        c['sched']['rle'] = streams.rle(ns)
                        c['sched'].pop('q', None)
                        yield c
        if case.get('file'):
            f = case['file']
            if f.get('short'):
                c = copy.deepcopy(case)
                c['file']['short'] = []
                yield c
            if case.get('verbose'):
                c = copy.deepcopy(case)
                c['verbose'] = False
                yield c
        # parameters that are not traits: drop
        keep = {'version', 'bf_offset', 'features', 'desc_lines', 'desc_sec',
                'desc_num', 'footer', 'footer_p', 'slots', 'pad_lines',
                'tail_lines'}
        for pk in sorted(rec.get('p') or {}):
            if pk in keep:
                continue
            c = copy.deepcopy(case)
            del c['content']['p'][pk]
            try:
                d2, _ = F.build(c['content'])
            except Exception:
                continue
            if c.get('sched'):
                c['sched']['rle'] = [[len(d2), 1]]
                c['sched']['fam'] = 'min'
                c['sched'].pop('q', None)
            yield c

    def extra_coverage(self, agg):
        rs = {k[2:]: v for k, v in agg['probes'].items()
              if k.startswith('R:')}
        bits = sorted(int(k.split('_')[-1]) for k in rs
                      if k.startswith('unknown_bit_'))
        return {'unsafe_trait_images': dict(sorted(rs.items())),
                'single_unknown_feature_bits_covered': len(bits),
                'single_unknown_feature_bits_possible': 60}

    def sample(self, case):
        c = {k: v for k, v in case.items() if k != 'sched'}
        if case.get('sched'):
            s = case['sched']
            c['schedule'] = {'mode': s['mode'], 'family': s['fam'],
                             'chunks': streams.n_chunks(s['rle'])}
        return c


CHECK = C02()
