"""C03 - detection is exclusive, conservative about raw, total, not revised.

Signature overlays / valid images / text and binary files x allowed_formats x
read-size sequences x inspector order; the decision is sampled after every
read and compared with a three-valued signature model.
"""
import copy

from models import formats as F
from models import gen as G
from models import sigmodel
from sim import core, imgsim, streams
from sim.runner import Check
from sim.streams import SimFile, SimSource


UNKNOWN_NAMES = ('vpc', 'qcow', 'QCOW2', 'Raw', 'ami', 'ploop', ' vhd')


def gen_allowed(rng):
    c = rng.random()
    if c < 0.45:
        return None
    if c < 0.52:
        # names that are not formats at all (alone: nothing may be considered)
        return sorted(rng.sample(UNKNOWN_NAMES, rng.randint(1, 2)))
    if c < 0.62:
        return [rng.choice(F.FORMATS)]
    k = rng.randint(2, 6)
    sub = rng.sample(list(F.FORMATS), k)
    if rng.random() < 0.5 and 'raw' not in sub:
        sub.append('raw')
    if rng.random() < 0.15:
        sub.append(rng.choice(UNKNOWN_NAMES))
    return sorted(sub)


MUTATE_ALLOWED = False


class C03(Check):
    ID = 'C03'
    LEVEL = 'exploration'
    RUNS = {'quick': 40000, 'thorough': 1500000}
    BLOCK = 50
    RULE = ('each run: one content (signature overlay of any subset of the '
            'nine signatures + FAT look-alike on zero/random/text '
            'backgrounds with lengths straddling the decision points 6, 64, '
            '512, 592, 34 KiB, 256 KiB; valid / mutated / truncated images; '
            'text and binary files; signatures planted near the end of the '
            'stream) x allowed_formats (None, singletons, subsets with/'
            'without raw) x expected_format (none, inside or outside the '
            'allowed set) x read-size sequence (incl. short reads) x inspector '
            'order, through InspectWrapper (read() or iteration) or '
            'detect_file_format (open() seam); wrapper.format sampled after '
            'every read. distinct = distinct (signature-model vector, '
            'length class, allowed set, route) tuples')
    COMPONENTS = {
        'real': ['InspectWrapper, detect_file_format, all inspectors'],
        'stub': ['byte source / file object, read-size scheduler, inspector '
                 'iteration order'],
    }
    ASSUMPTIONS = ['three-valued signature model in models/sigmodel.py; '
                   '"maybe" (signature present but stream shorter than the '
                   'decision point, VMDK text territory) asserts nothing']
    FAULT_KINDS = ('short_read', 'early_eof_before_decision_point',
                   'empty_chunk', 'allowed_formats_restricted',
                   'expected_format_given', 'returned_formats_list_edited',
                   'allowed_collection_edited_after_construction')
    PROBES = ('two_or_more_yes', 'exactly_one_yes', 'all_no', 'has_maybe',
              'decided_before_eof', 'raw_result', 'multiple_formats_error',
              'no_allowed_match_error', 'fat_lookalike',
              'late_nonascii_text', 'expected_outside_allowed',
              'cut_off_by_expected_inspector', 'tail_signature',
              'overlay_of_individually_detected_signatures')

    def gen(self, st, tier, index, total):
        rng = st('content')
        cls = core.weighted(rng, [('polyglot', 5), ('wellformed', 2),
                                  ('mutated', 2), ('truncated', 1),
                                  ('unstructured', 3)])
        cls, rec = G.gen_content(rng, cls)
        if cls == 'polyglot' and rng.random() < 0.15:
            # two full images: an ISO carrying another header
            rec['p']['sigs'] = sorted(set(rec['p']['sigs']) | {'iso'})
            rec['p']['total'] = max(rec['p']['total'], 34 * 1024 + 7)
        data, info = F.build(rec)
        n = len(data)
        srng = st('schedule')
        via = core.weighted(srng, [('wfile', 5), ('witer', 3), ('detect', 3)])
        case = {'content': rec, 'cls': cls, 'via': via,
                'allowed': gen_allowed(st('config')) if via != 'detect'
                else None}
        xrng = st('expected')
        if via != 'detect' and xrng.random() < 0.3:
            # expected_format: a format outside allowed_formats (its
            # inspector must not come into play) or any format (the stream
            # may then be cut off, which is C06's subject)
            al = case['allowed']
            outside = [f for f in F.FORMATS if al and f not in al]
            if outside and xrng.random() < 0.6:
                case['expected'] = xrng.choice(outside)
            else:
                case['expected'] = xrng.choice(F.FORMATS)
        arng = st('argshapes')
        if via != 'detect' and arng.random() < 0.2:
            # how the caller spells the configuration: str subclasses for
            # names, other collection types for the selection
            case['styles'] = [arng.choice(imgsim.NAME_STYLES),
                              arng.choice(imgsim.COLL_STYLES),
                              arng.choice(imgsim.NAME_STYLES)]
        if via != 'detect':
            if arng.random() < 0.15:
                # the caller edits the list `formats` returns, then asks again
                case['spoil'] = arng.choice(imgsim.SPOILS)
            # (withdrawn: WHICH value of a collection that is edited after
            # the call counts as "allowed_formats" is not something the
            # statement settles - a wrapper that builds its inspectors
            # lazily keeps the property as stated; the draw is kept so that
            # the rest of the generation is unchanged)
            if case['allowed'] and arng.random() < 0.08 and \
                    (case.get('styles') or [0, None])[1] in (None, 'set') \
                    and MUTATE_ALLOWED:
                # ... or goes on editing the collection it passed
                case['mutate_allowed'] = arng.choice(('clear', 'add_all'))
            case['kind'] = core.weighted(arng, imgsim.CHUNK_KINDS)
        if via == 'wfile':
            case['ask'] = core.weighted(xrng, imgsim.ASK_MODES)
        if via == 'witer' and xrng.random() < 0.3:
            case['forloop'] = True
        if via == 'detect':
            c = srng.random()
            case['short'] = [srng.choice((0, 1, 7, 100, 512, 4095))
                             for _ in range(srng.randint(1, 4))] \
                if c < 0.4 else []
        else:
            name, r = streams.gen_schedule(
                srng, n, info['boundaries'] or [x for x in (6, 64, 512, 592)
                                                if x < n],
                allow_empty=(via == 'witer'), max_chunks=1500)
            case['fam'] = name
            case['rle'] = r
            order = list(F.FORMATS)
            st('order').shuffle(order)
            case['order'] = order
        return case

    def execute(self, case):
        log = core.EventLog()
        imgsim.fi()
        imgsim.set_hash_salt(case.get('content') or case)
        m = imgsim.fi()
        data, info = F.build(case['content'])
        n = len(data)
        mod = sigmodel.model(data, info)
        stats = {'faults': {}, 'probes': {}, 'families': {}, 'sim': {},
                 'distinct': []}
        fa, pr = stats['faults'], stats['probes']

        def bump(d, k, v=1):
            d[k] = d.get(k, 0) + v
        viols = []

        def viol(cls, **d):
            viols.append({'cls': cls, 'detail': d})
        allowed = case.get('allowed')
        aset = set(allowed) if allowed else set(F.FORMATS)
        if allowed:
            bump(fa, 'allowed_formats_restricted')
        yes = sorted(x for x in sigmodel.NONRAW if mod[x] == 'yes' and
                     x in aset)
        maybe = sorted(x for x in sigmodel.NONRAW if mod[x] == 'maybe' and
                       x in aset)
        if len(yes) >= 2:
            bump(pr, 'two_or_more_yes')
        elif len(yes) == 1:
            bump(pr, 'exactly_one_yes')
        elif not maybe:
            bump(pr, 'all_no')
        if maybe:
            bump(pr, 'has_maybe')
        if n >= 512 and data[0x10] == 2 and data[0x15] == 0xF8 and \
                data[510:512] == b'\x55\xaa':
            bump(pr, 'fat_lookalike')
        if info.get('tail_sigs'):
            bump(pr, 'tail_signature')
        lb = (case['content'].get('p') or {}).get('late_byte')
        if lb:
            bump(pr, 'late_nonascii_text')
        for d in (6, 64, 512, 592, 34 * 1024, 256 * 1024):
            if n < d and any(n >= d - 600 for _ in (0,)):
                bump(fa, 'early_eof_before_decision_point')
                break
        bump(stats['families'], case['via'])

        # recorder: which inspector classes get fed
        fed = set()
        base = m.FileInspector
        orig = base.__dict__.get('eat_chunk')

        def rec_eat(self_, chunk):
            fed.add(self_.NAME)
            return orig(self_, chunk)
        if orig is not None:
            base.eat_chunk = rec_eat
        samples = []
        final = finals = None
        expected = case.get('expected')
        aborted = False
        if expected:
            bump(fa, 'expected_format_given')
            if expected not in aset:
                bump(pr, 'expected_outside_allowed')
        if case.get('ask'):
            bump(fa, 'short_read')
        try:
            if case['via'] == 'detect':
                files = []

                def sim_open(p, mode='r', *a, **k):
                    sf = SimFile(data, short=case.get('short'))
                    files.append(sf)
                    return sf
                m.open = sim_open
                try:
                    try:
                        insp = m.detect_file_format(
                            imgsim.image_on_disk(data))
                        final = None if insp is None else str(insp)
                    except m.ImageFormatError:
                        final = 'ImageFormatError'
                    except Exception as e:
                        final = core.exc_name(e)
                finally:
                    del m.open
                if case.get('short') and files:
                    bump(fa, 'short_read')
                if not files:
                    # this tree opens files some other way: it read the
                    # real file, short reads were not in effect
                    bump(pr, 'open_seam_unavailable')
                if files and files[0].closed < 1:
                    # resource hygiene, not part of the statement
                    bump(pr, 'file_left_open')
                if files:
                    bump(stats['sim'], 'bytes', files[0].pos)
                    if files[0].pos < n:
                        bump(pr, 'decided_before_eof')
                finals = None
                if final is None:
                    viol('detect_returned_none', length=n)
            else:
                sizes = streams.expand(case['rle'])
                if 0 in sizes:
                    bump(fa, 'empty_chunk')
                pers = 'file' if case['via'] == 'wfile' else 'iter'
                plan = [x for x in sizes if x > 0] if pers == 'file' \
                    else sizes
                src = SimSource(data, plan, kind=case.get('kind'))
                try:
                    sty = case.get('styles') or [None, None, None]
                    allowed_obj = imgsim.coll_arg(allowed, sty[1], sty[2])
                    w = m.InspectWrapper(
                        src, allowed_formats=allowed_obj,
                        expected_format=imgsim.name_arg(expected, sty[0]))
                    if case.get('mutate_allowed') and \
                            imgsim.mutate_collection(
                                allowed_obj, case['mutate_allowed'],
                                list(F.FORMATS)):
                        bump(fa, 'allowed_collection_edited_after_construction')
                    imgsim.order_inspectors(w, case.get('order') or
                                            list(F.FORMATS))
                    idx = 0
                    while True:
                        try:
                            if pers == 'file':
                                chunk = w.read(imgsim.ask_size(
                                    case.get('ask'),
                                    plan[idx] if idx < len(plan) else 4096))
                                done = not chunk
                            elif case.get('forloop'):
                                # a for statement that is left after one
                                # chunk and entered again later
                                done = True
                                for chunk in w:
                                    done = False
                                    break
                            else:
                                try:
                                    chunk = next(w)
                                    done = False
                                except StopIteration:
                                    done = True
                        except core.StepCapExceeded:
                            raise
                        except Exception:
                            if expected is None or expected not in aset:
                                raise
                            # the expected format's inspector cut the stream
                            # off: legitimate, judged by C06
                            aborted = True
                            break
                        samples.append(imgsim.w_format(w))
                        if case.get('spoil') and \
                                imgsim.spoil_formats(w, case['spoil']):
                            bump(fa, 'returned_formats_list_edited')
                        idx += 1
                        if done:
                            break
                    w.close()
                    final = imgsim.w_format(w)
                    finals = imgsim.w_formats(w)
                    if case.get('spoil') and \
                            imgsim.spoil_formats(w, case['spoil']):
                        bump(fa, 'returned_formats_list_edited')
                    again = imgsim.w_format(w)
                    if again != final or imgsim.w_formats(w) != finals:
                        viol('format_not_stable_after_close', first=final,
                             second=again)
                except core.StepCapExceeded:
                    viol('no_progress')
                except Exception as e:
                    viol('wrapper_raised', exc=core.exc_name(e))
                bump(stats['sim'], 'bytes', n)
                bump(stats['sim'], 'chunks', len(sizes))
        finally:
            if orig is not None:
                base.eat_chunk = orig
        log.add('run', case['via'], final, finals, samples[-3:], sorted(fed),
                expected, aborted, case.get('ask'), bool(case.get('forloop')))
        if aborted:
            bump(pr, 'cut_off_by_expected_inspector')

        # 4. totality
        for v in samples + [final] + ([finals] if isinstance(finals, str)
                                      else []):
            if isinstance(v, str) and v.startswith('EXC:'):
                viol('detection_raised_other', exc=v, inspector='wrapper')
                break
        # 5. no revision (not asserted across a cut-off: what the expected
        # inspector's failure does to the decision is not part of C03)
        decided = None
        for i, v in enumerate(samples if not aborted else ()):
            if decided is None:
                if v is not None:
                    decided = (i, v)
                    if i < len(samples) - 1:
                        bump(pr, 'decided_before_eof')
            elif v != decided[1]:
                viol('decision_revised', at_read=i, first=list(decided),
                     later=v)
                break
        if decided is not None and final != decided[1] and \
                case['via'] != 'detect':
            viol('decision_revised', at_read='close', first=list(decided),
                 later=final)
        # 6. never considered
        outside = sorted(fed - aset)
        if outside:
            viol('inspector_outside_allowed_was_fed', names=outside,
                 allowed=sorted(aset))
        # 1-3 on the final result (the model describes the whole content; after
        # a cut-off only a prefix was read, so only the allowed-set rule is
        # kept)
        if aborted:
            if isinstance(final, str) and not final.startswith('EXC:') and \
                    final != 'ImageFormatError' and final not in aset:
                viol('result_outside_allowed', result=final,
                     allowed=sorted(aset))
            if isinstance(finals, list):
                for x in finals:
                    if x not in aset:
                        viol('result_outside_allowed', result=x,
                             allowed=sorted(aset))
            finals = None
        elif isinstance(final, str) and not final.startswith('EXC:'):
            if final == 'raw':
                bump(pr, 'raw_result')
            if final == 'ImageFormatError':
                if yes or maybe:
                    bump(pr, 'multiple_formats_error')
                else:
                    bump(pr, 'no_allowed_match_error')
            if final not in ('ImageFormatError',):
                if final not in aset:
                    viol('result_outside_allowed', result=final,
                         allowed=sorted(aset))
                elif final != 'raw':
                    if mod.get(final) == 'no':
                        viol('named_format_without_signature', result=final,
                             model=mod)
                    others = [y for y in yes if y != final]
                    if others:
                        viol('named_one_of_several', result=final,
                             also_present=others)
                else:
                    if yes:
                        viol('raw_although_signature_present', present=yes,
                             model=mod)
            if len(yes) >= 2 and final != 'ImageFormatError':
                viol('multiple_matches_not_refused', present=yes,
                     result=final)
            if not yes and not maybe:
                want = 'raw' if 'raw' in aset else 'ImageFormatError'
                if final != want:
                    viol('nothing_matches_but_not_raw', result=final,
                         expected=want, model=mod)
            if len(yes) == 1 and not maybe and final != yes[0]:
                viol('single_signature_not_detected', present=yes,
                     result=final)
        if isinstance(finals, list):
            if 'raw' in finals and len(finals) > 1:
                viol('raw_together_with_others', formats=finals)
            for x in finals:
                if x not in aset:
                    viol('result_outside_allowed', result=x,
                         allowed=sorted(aset))
                elif x != 'raw' and mod.get(x) == 'no':
                    viol('named_format_without_signature', result=x,
                         model=mod)
            for y in yes:
                if y not in finals:
                    viol('present_format_not_listed', missing=y,
                         formats=finals)
        # 7. metamorphic form of "two or more matching formats always raise"
        # that needs no model of what matches: if every signature of an
        # overlay, planted alone on the same background, makes THIS tree
        # report that very format, then the overlay of all of them must be
        # refused
        p0 = case['content'].get('p') or {}
        sigs = list(p0.get('sigs') or [])
        if (case['content'].get('layout') == 'overlay' and len(sigs) >= 2 and
                not aborted and not expected and
                not case['content'].get('mut') and
                case['content'].get('trunc') is None and
                all(x in aset for x in sigs) and
                isinstance(final, str) and not final.startswith('EXC:')):
            singles = []
            for x in sigs:
                rec1 = copy.deepcopy(case['content'])
                rec1['p']['sigs'] = [x]
                d1, _i1 = F.build(rec1)
                singles.append(self._detect_plain(d1, case, allowed))
            if singles == sigs:
                bump(pr, 'overlay_of_individually_detected_signatures')
                if final != 'ImageFormatError':
                    viol('individually_detected_formats_not_refused',
                         signatures=sigs, result=final, length=n)
        nclass = sum(1 for d in (6, 64, 512, 592, 34 * 1024, 256 * 1024)
                     if n >= d)
        stats['distinct'].append(core._h64(core.canon(
            [sorted(mod.items()), nclass, allowed, case['via']])))
        stats['faulty'] = bool(fa)
        seen = set()
        uniq = []
        for v in viols:
            if v['cls'] in seen:
                continue
            seen.add(v['cls'])
            uniq.append(v)
        return {'violations': uniq[:3], 'digest': log.digest(),
                'stats': stats}

    def _detect_plain(self, data, case, allowed):
        """Final answer for `data` read the same way as the case's main
        session (no sampling, no expected format)."""
        m = imgsim.fi()
        if case['via'] == 'detect':
            def sim_open(p, mode='r', *a, **k):
                return SimFile(data, short=case.get('short'))
            m.open = sim_open
            try:
                try:
                    insp = m.detect_file_format(imgsim.image_on_disk(data))
                    return None if insp is None else str(insp)
                except m.ImageFormatError:
                    return 'ImageFormatError'
                except Exception as e:
                    return core.exc_name(e)
            finally:
                del m.open
        sizes = streams.expand(case['rle'])
        pers = 'file' if case['via'] == 'wfile' else 'iter'
        r = imgsim.drive_wrapper(data, sizes, pers, order=case.get('order'),
                                 allowed=allowed, watch_regions=False,
                                 ask=case.get('ask'))
        if r['error']:
            return 'EXC:' + str(r['error'][1])
        return r['format']

    def finding(self, case, v):
        return None

    def subkey(self, case, v):
        return None

    def reducers(self, case):
        if case.get('allowed'):
            c = copy.deepcopy(case)
            c['allowed'] = None
            yield c
            if len(case['allowed']) > 1:
                for i in range(len(case['allowed'])):
                    c = copy.deepcopy(case)
                    del c['allowed'][i]
                    yield c
        if case.get('short'):
            c = copy.deepcopy(case)
            c['short'] = []
            yield c
        for key in ('expected', 'ask', 'forloop'):
            if case.get(key):
                c = copy.deepcopy(case)
                c.pop(key)
                yield c
        if case.get('rle'):
            sizes = streams.expand(case['rle'])
            tot = sum(sizes)
            for ns in ([tot], streams.uniform_sizes(tot, 4096),
                       streams.uniform_sizes(tot, 512)):
                if ns != sizes and ns:
                    c = copy.deepcopy(case)
                    c['rle'] = streams.rle(ns)
                    c['fam'] = 'min'
                    yield c
            if 1 < len(sizes) <= 40:
                for i in range(len(sizes) - 1):
                    ns = sizes[:i] + [sizes[i] + sizes[i + 1]] + sizes[i + 2:]
                    c = copy.deepcopy(case)
                    c['rle'] = streams.rle(ns)
                    yield c
        rec = case['content']
        for key in ('mut', 'ext'):
            if rec.get(key):
                c = copy.deepcopy(case)
                c['content'].pop(key)
                c2 = self._refit(c)
                if c2:
                    yield c2
        p = rec.get('p') or {}
        if p.get('sigs') and len(p['sigs']) > 1:
            for i in range(len(p['sigs'])):
                c = copy.deepcopy(case)
                del c['content']['p']['sigs'][i]
                yield c
        for pk in sorted(p):
            if pk in ('sigs',):
                continue
            c = copy.deepcopy(case)
            del c['content']['p'][pk]
            c2 = self._refit(c)
            if c2:
                yield c2
        if p.get('total', 0) > 1:
            for t in (p['total'] // 2, p['total'] - 1):
                c = copy.deepcopy(case)
                c['content']['p']['total'] = t
                c2 = self._refit(c)
                if c2:
                    yield c2

    @staticmethod
    def _refit(case):
        try:
            data, _ = F.build(case['content'])
        except Exception:
            return None
        if case.get('rle') is not None:
            n = len(data)
            out, pos = [], 0
            for x in streams.expand(case['rle']):
                if pos + x > n:
                    x = n - pos
                    if x == 0:
                        continue
                out.append(x)
                pos += x
            if pos < n:
                out.append(n - pos)
            case['rle'] = streams.rle(out)
        return case

    def sample(self, case):
        c = {k: v for k, v in case.items() if k != 'rle'}
        if case.get('rle') is not None:
            c['reads'] = streams.n_chunks(case['rle'])
            c['rle_head'] = case['rle'][:5]
        return c


CHECK = C03()
