#!/bin/sh
# Offline setup: nothing is built or fetched. Verifies the interpreter and
# that oslo_utils is imported from /repo's working tree.
set -e
cd "$(dirname "$0")"
mkdir -p evidence replays
/venv/bin/python - <<'PY'
import sys
sys.path.insert(0, '.')
from sim import core
root = core.import_sut()
import oslo_utils.imageutils.format_inspector, oslo_utils.timeutils, oslo_utils.excutils, oslo_utils.fileutils
try:
    import greenlet
    g = greenlet.__version__
except Exception as e:
    g = 'absent (%s): C09 uses the thread engine only' % e
print('setup ok: python %s, oslo_utils from %s, greenlet %s' % (sys.version.split()[0], root, g))
PY
